(* ClientConcModel.v -- the wire-level consequence of the client's lock discipline (C14).
   Any number of callers share one client.  A caller performs its calls one after the other:
     Do f        = [ acquire mu ; write the request frame f byte by byte ; read one reply ; release mu ]
                   (Client.Do / SerialClient.Do: c.mu.Lock ... c.do: conn.Write, conn.Read loop ... Unlock)
     Close/Connect = [ acquire mu ; the transport call: conn.Close() resp. dial + assign conn ;
                       release mu ]            (Client.Close, Client.Connect, SerialClient.Close)
     abandoned Do f = [ acquire mu ; write the request frame f byte by byte ; release mu ]
                   the caller's context ends after the write: Do returns the context error and the
                   reply is never read (client.go do: the frame is written before ctx is looked at and
                   `case <-ctx.Done(): return` leaves the read loop; serialclient.go do likewise).
                   The transport still answers the request: the reply stays queued.  (Defect D18.)
   Every step of the list is a separate atomic action, so a schedule may preempt a caller between
   any two bytes of its frame.  The transport sees one byte stream ([wire]); it splits the stream
   into requests with [decode] and answers them in arrival order with [reply_of]; a read takes the
   next unread reply.  Acquiring is enabled only when the mutex is free; nothing else is
   restricted (writes, reads, the transport call of Close/Connect [ATouch] and releases are NOT
   guarded by the semantics: that they are made by the holder only is a theorem,
   ClientConcProofs.steps_by_holder / only_holder_steps).
   Definitions only; the theorems are in proofs/ClientConcProofs.v. *)
Require Import MB.LockModel.
From Coq Require Import List NArith Bool Arith.
Import ListNotations.

Definition frm := list N.                       (* a request or reply frame: bytes *)

Inductive call :=
| CDo (f : frm)      (* a request call *)
| CCtl               (* Close or Connect *)
| CAb (f : frm).     (* a request call abandoned by its caller after the write *)

Inductive phase :=
| PIdle                                         (* between calls, lock not held *)
| PWriting (f : frm) (rest : list N)            (* lock held; rest = bytes of f not yet written *)
| PGot (f : frm) (r : option frm)               (* frame written, reply read, lock still held *)
| PCtl (touched : bool)                         (* inside Close / Connect *)
| PAbWriting (f : frm) (rest : list N).         (* abandoned call: writing; will release without reading *)

Record caller := {
  ph : phase;
  pending : list call;                          (* calls not yet started *)
  results : list (frm * option frm)             (* completed request calls: request, reply received *)
}.

Record cst := {
  c_owner : option nat;                         (* who acquired mu last and has not released it *)
  callers : nat -> caller;
  wire : list N;                                (* every byte written to the transport, in order *)
  reads : nat                                   (* how many replies have been taken *)
}.

(* the transport calls are AWrite, ARead and ATouch (= conn.Close() / the dial of Connect) *)
Inductive action := AAcq (c : call) | AWrite (b : N) | ARead (r : option frm) | ATouch | ARel.

Definition set_caller (f : nat -> caller) (i : nat) (c : caller) : nat -> caller :=
  fun j => if Nat.eqb j i then c else f j.

Section Transport.
  Variable reply_of : frm -> frm.               (* the device's answer to a request *)
  Variable decode : list N -> list frm.         (* how the transport frames its input stream *)

  (* the reply the transport hands out to the k-th read, given everything written so far *)
  Definition kth_reply (w : list N) (k : nat) : option frm := option_map reply_of (nth_error (decode w) k).

  Inductive cstep : cst -> nat -> action -> cst -> Prop :=
  | c_acq_do s i f rs : ph (callers s i) = PIdle -> pending (callers s i) = CDo f :: rs ->
      c_owner s = None ->
      cstep s i (AAcq (CDo f))
        {| c_owner := Some i;
           callers := set_caller (callers s) i
                        {| ph := PWriting f f; pending := rs; results := results (callers s i) |};
           wire := wire s; reads := reads s |}
  | c_acq_ctl s i rs : ph (callers s i) = PIdle -> pending (callers s i) = CCtl :: rs ->
      c_owner s = None ->
      cstep s i (AAcq CCtl)
        {| c_owner := Some i;
           callers := set_caller (callers s) i
                        {| ph := PCtl false; pending := rs; results := results (callers s i) |};
           wire := wire s; reads := reads s |}
  | c_acq_ab s i f rs : ph (callers s i) = PIdle -> pending (callers s i) = CAb f :: rs ->
      c_owner s = None ->
      cstep s i (AAcq (CAb f))
        {| c_owner := Some i;
           callers := set_caller (callers s) i
                        {| ph := PAbWriting f f; pending := rs; results := results (callers s i) |};
           wire := wire s; reads := reads s |}
  | c_ab_write s i f b rest : ph (callers s i) = PAbWriting f (b :: rest) ->
      cstep s i (AWrite b)
        {| c_owner := c_owner s;
           callers := set_caller (callers s) i
                        {| ph := PAbWriting f rest; pending := pending (callers s i);
                           results := results (callers s i) |};
           wire := wire s ++ [b]; reads := reads s |}
  | c_ab_rel s i f : ph (callers s i) = PAbWriting f [] ->
      cstep s i ARel
        {| c_owner := None;
           callers := set_caller (callers s) i
                        {| ph := PIdle; pending := pending (callers s i);
                           results := results (callers s i) |};
           wire := wire s; reads := reads s |}
  | c_write s i f b rest : ph (callers s i) = PWriting f (b :: rest) ->
      cstep s i (AWrite b)
        {| c_owner := c_owner s;
           callers := set_caller (callers s) i
                        {| ph := PWriting f rest; pending := pending (callers s i);
                           results := results (callers s i) |};
           wire := wire s ++ [b]; reads := reads s |}
  | c_read s i f : ph (callers s i) = PWriting f [] ->
      cstep s i (ARead (kth_reply (wire s) (reads s)))
        {| c_owner := c_owner s;
           callers := set_caller (callers s) i
                        {| ph := PGot f (kth_reply (wire s) (reads s)); pending := pending (callers s i);
                           results := results (callers s i) |};
           wire := wire s; reads := S (reads s) |}
  | c_touch s i : ph (callers s i) = PCtl false ->
      cstep s i ATouch
        {| c_owner := c_owner s;
           callers := set_caller (callers s) i
                        {| ph := PCtl true; pending := pending (callers s i);
                           results := results (callers s i) |};
           wire := wire s; reads := reads s |}
  | c_rel_do s i f r : ph (callers s i) = PGot f r ->
      cstep s i ARel
        {| c_owner := None;
           callers := set_caller (callers s) i
                        {| ph := PIdle; pending := pending (callers s i);
                           results := results (callers s i) ++ [(f, r)] |};
           wire := wire s; reads := reads s |}
  | c_rel_ctl s i : ph (callers s i) = PCtl true ->
      cstep s i ARel
        {| c_owner := None;
           callers := set_caller (callers s) i
                        {| ph := PIdle; pending := pending (callers s i);
                           results := results (callers s i) |};
           wire := wire s; reads := reads s |}.

  (* caller i is going to perform the calls [reqs i] *)
  Definition cinit (reqs : nat -> list call) : cst :=
    {| c_owner := None;
       callers := fun i => {| ph := PIdle; pending := reqs i; results := [] |};
       wire := []; reads := 0 |}.

  (* every schedule: the states reachable from the initial one, with the steps taken *)
  Inductive creach (reqs : nat -> list call) : list (nat * action) -> cst -> Prop :=
  | cr_init : creach reqs [] (cinit reqs)
  | cr_step l s i a s' : creach reqs l s -> cstep s i a s' -> creach reqs (l ++ [(i, a)]) s'.

  (* ---- an executable scheduler: caller i takes its next step if it is enabled ---- *)
  Definition step_fun (s : cst) (i : nat) : option (action * cst) :=
    let c := callers s i in
    match ph c with
    | PIdle =>
        match pending c, c_owner s with
        | CDo f :: rs, None =>
            Some (AAcq (CDo f),
                  {| c_owner := Some i;
                     callers := set_caller (callers s) i {| ph := PWriting f f; pending := rs; results := results c |};
                     wire := wire s; reads := reads s |})
        | CAb f :: rs, None =>
            Some (AAcq (CAb f),
                  {| c_owner := Some i;
                     callers := set_caller (callers s) i {| ph := PAbWriting f f; pending := rs; results := results c |};
                     wire := wire s; reads := reads s |})
        | CCtl :: rs, None =>
            Some (AAcq CCtl,
                  {| c_owner := Some i;
                     callers := set_caller (callers s) i {| ph := PCtl false; pending := rs; results := results c |};
                     wire := wire s; reads := reads s |})
        | _, _ => None
        end
    | PWriting f (b :: rest) =>
        Some (AWrite b,
              {| c_owner := c_owner s;
                 callers := set_caller (callers s) i {| ph := PWriting f rest; pending := pending c; results := results c |};
                 wire := wire s ++ [b]; reads := reads s |})
    | PWriting f [] =>
        Some (ARead (kth_reply (wire s) (reads s)),
              {| c_owner := c_owner s;
                 callers := set_caller (callers s) i
                              {| ph := PGot f (kth_reply (wire s) (reads s)); pending := pending c; results := results c |};
                 wire := wire s; reads := S (reads s) |})
    | PGot f r =>
        Some (ARel,
              {| c_owner := None;
                 callers := set_caller (callers s) i {| ph := PIdle; pending := pending c; results := results c ++ [(f, r)] |};
                 wire := wire s; reads := reads s |})
    | PAbWriting f (b :: rest) =>
        Some (AWrite b,
              {| c_owner := c_owner s;
                 callers := set_caller (callers s) i {| ph := PAbWriting f rest; pending := pending c; results := results c |};
                 wire := wire s ++ [b]; reads := reads s |})
    | PAbWriting f [] =>
        Some (ARel,
              {| c_owner := None;
                 callers := set_caller (callers s) i {| ph := PIdle; pending := pending c; results := results c |};
                 wire := wire s; reads := reads s |})
    | PCtl false =>
        Some (ATouch,
              {| c_owner := c_owner s;
                 callers := set_caller (callers s) i {| ph := PCtl true; pending := pending c; results := results c |};
                 wire := wire s; reads := reads s |})
    | PCtl true =>
        Some (ARel,
              {| c_owner := None;
                 callers := set_caller (callers s) i {| ph := PIdle; pending := pending c; results := results c |};
                 wire := wire s; reads := reads s |})
    end.

  (* run a schedule given as the list of callers to be scheduled; a caller that is not enabled
     (blocked on the mutex, or finished) is skipped *)
  Fixpoint run_schedule (sched : list nat) (s : cst) : cst :=
    match sched with
    | [] => s
    | i :: r => match step_fun s i with Some (_, s') => run_schedule r s' | None => run_schedule r s end
    end.
End Transport.

(* ---- what the theorems speak about ---- *)
(* the calls for which the mutex was acquired, in acquisition order *)
Definition acq_order (l : list (nat * action)) : list (nat * call) :=
  flat_map (fun x => match x with (i, AAcq c) => [(i, c)] | _ => [] end) l.
Definition frames_of (log : list (nat * call)) : list frm :=
  flat_map (fun x => match x with (_, CDo f) => [f] | (_, CCtl) => [] | (_, CAb f) => [f] end) log.
Definition do_frames (cs : list call) : list frm :=
  flat_map (fun c => match c with CDo f => [f] | CCtl => [] | CAb _ => [] end) cs.
(* no call of the list is abandoned by its caller *)
Definition no_abandon (cs : list call) : bool :=
  forallb (fun c => match c with CAb _ => false | _ => true end) cs.
Definition cur_frame (p : phase) : list frm :=
  match p with PWriting f _ => [f] | PGot f _ => [f] | _ => [] end.

(* lock events a caller is still going to perform (the projection to LockProofs.gst) *)
Definition call_events (c : call) : list event :=
  match c with
  | CDo f => EAcq :: repeat EUse (length f) ++ [EUse; ERel]
  | CCtl => [EAcq; EUse; ERel]
  | CAb f => EAcq :: repeat EUse (length f) ++ [ERel]
  end.
Definition phase_events (p : phase) : list event :=
  match p with
  | PIdle => []
  | PWriting _ rest => repeat EUse (length rest) ++ [EUse; ERel]
  | PGot _ _ => [ERel]
  | PCtl false => [EUse; ERel]
  | PCtl true => [ERel]
  | PAbWriting _ rest => repeat EUse (length rest) ++ [ERel]
  end.
Definition caller_events (c : caller) : list event :=
  phase_events (ph c) ++ flat_map call_events (pending c).

(* ---- an example of a self-delimiting framing: one length byte, then that many bytes ---- *)
Fixpoint take_frames (fuel : nat) (w : list N) : list frm :=
  match fuel with
  | O => []
  | S k =>
      match w with
      | [] => []
      | n :: r =>
          let len := N.to_nat n in
          if length r <? len then [] else (n :: firstn len r) :: take_frames k (skipn len r)
      end
  end.
Definition decode_lp (w : list N) : list frm := take_frames (length w) w.
Definition lp_frame (payload : list N) : frm := N.of_nat (length payload) :: payload.
