(* GenPrelude.v -- the vocabulary of the code that /verif/gotrans generates from /repo/packet/*.go
   (coq/gen/PacketGen.v), on top of GoSem / CrcModel / PacketModel.

   The translator represents
     Go int                      as Z   (unbounded: trusted, see DESIGN.md section 7),
     Go uint8 / byte / uint16    as N, every arithmetic result wrapped at the width of its Go type,
     the []byte parameter that a function indexes or re-slices   as GoSem.slice,
     every other []byte value (a re-slice, a make+copy buffer)   as list N,
     a function that returns (T, error) or that can panic        as PacketModel.pres T.
   Only definitions and the small lemmas the equality tactic (proofs/GenEquiv.v) rewrites with. *)
From Coq Require Import String.
From Coq Require Import ZifyBool ZifyN ZifyNat.
Require Import MB.GoSem MB.CrcModel MB.PacketModel.
Open Scope N_scope.
Ltac Zify.zify_post_hook ::= Z.to_euclidean_division_equations.

(* what the translator emits for a function that uses a construct outside its fragment: the
   definition then has this type, so every obligation that mentions the function fails to compile *)
Inductive untranslated := Untranslated (reason : string).

(* ---------- integer conversions at the Go type of the operand ---------- *)
(* uint16(x), uint8(x) for x of type int: two's complement truncation *)
Definition u16_of_Z (x : Z) : N := Z.to_N (x mod 65536).
Definition u8_of_Z (x : Z) : N := Z.to_N (x mod 256).
(* uint8 / uint16 multiplication, left shift *)
Definition mul8 (a b : N) : N := u8 (a * b).
Definition shl8 (a n : N) : N := u8 (N.shiftl a n).
Definition shl16 (a n : N) : N := u16 (N.shiftl a n).
(* int(math.Ceil(float64(a) / b)) for an unsigned a below 2^32 and b a power of two (exact in float64) *)
Definition ceil_div (a b : Z) : Z := ((a + b - 1) / b)%Z.

(* ---------- slices addressed by a Go int ---------- *)
Definition zlen (s : slice) : Z := Z.of_nat (slen s).
Definition llen {A} (l : list A) : Z := Z.of_nat (length l).
(* s[i] *)
Definition zidx {E} (s : slice) (i : Z) : res E N :=
  if (i <? 0)%Z then Panic else idx s (Z.to_nat i).
(* s[i:j], s[i:], s[:j] *)
Definition zsub {E} (s : slice) (i j : Z) : res E (list N) :=
  if ((i <? 0) || (j <? 0))%Z then Panic else sub s (Z.to_nat i) (Z.to_nat j).
Definition zfrom {E} (s : slice) (i : Z) : res E (list N) :=
  if (i <? 0)%Z then Panic else from s (Z.to_nat i).
Definition zupto {E} (s : slice) (j : Z) : res E (list N) :=
  if (j <? 0)%Z then Panic else sub s 0 (Z.to_nat j).
(* make([]byte, n) *)
Definition zmake {E} (n : Z) : res E (list N) :=
  if (n <? 0)%Z then Panic else Ok (repeat 0 (Z.to_nat n)).
(* copy(dst, src): the new content of dst *)
Definition gcopy (dst src : list N) : list N :=
  firstn (length dst) src ++ skipn (length src) dst.
(* binary.BigEndian.Uint16(l) / binary.LittleEndian.Uint16(l): panics on fewer than two bytes *)
Definition zbe16 {E} (l : list N) : res E N :=
  if (length l <? 2)%nat then Panic else Ok (be16 (firstn 2 l)).
Definition zle16 {E} (l : list N) : res E N :=
  if (length l <? 2)%nat then Panic else Ok (le16 (firstn 2 l)).

(* ---------- the model side of the obligations whose Go signature differs from the model's ---------- *)
(* AsTCPErrorPacket / AsRTUErrorPacket(WithCRC) return an error value; the model returns its fields *)
Definition exc_err_tcp (o : option exc) : option perr := option_map ERespTCP o.
Definition exc_err_rtu (o : option (N * N * N)) : option perr :=
  option_map (fun '(u, f, c) => ERespRTU u f c) o.
(* LooksLikeModbusTCP returns an int *)
Definition looks_like_z (r : N * option perr) : Z * option perr := (Z.of_N (fst r), snd r).
(* a request constructor accepts its arguments *)
Definition accepts {A} (r : pres A) : bool := is_ok r.

(* ---------- lemmas ---------- *)
Lemma zidx_nat {E} s i : (0 <= i)%Z -> @zidx E s i = idx s (Z.to_nat i).
Proof. unfold zidx. intros H. replace (i <? 0)%Z with false by lia. reflexivity. Qed.
Lemma zsub_nat {E} s i j : (0 <= i)%Z -> (0 <= j)%Z -> @zsub E s i j = sub s (Z.to_nat i) (Z.to_nat j).
Proof. unfold zsub. intros H1 H2. replace ((i <? 0) || (j <? 0))%Z with false by lia. reflexivity. Qed.
Lemma zfrom_nat {E} s i : (0 <= i)%Z -> @zfrom E s i = from s (Z.to_nat i).
Proof. unfold zfrom. intros H. replace (i <? 0)%Z with false by lia. reflexivity. Qed.
Lemma zupto_nat {E} s j : (0 <= j)%Z -> @zupto E s j = sub s 0 (Z.to_nat j).
Proof. unfold zupto. intros H. replace (j <? 0)%Z with false by lia. reflexivity. Qed.
Lemma zmake_nat {E} n : (0 <= n)%Z -> @zmake E n = Ok (repeat 0 (Z.to_nat n)).
Proof. unfold zmake. intros H. replace (n <? 0)%Z with false by lia. reflexivity. Qed.

Lemma gcopy_fill n l : length l = n -> gcopy (repeat 0 n) l = l.
Proof.
  intros H. unfold gcopy. rewrite repeat_length, <- H, firstn_all.
  rewrite skipn_all2 by (rewrite repeat_length; lia). apply app_nil_r.
Qed.

Lemma firstn_skipn_length {A} (l : list A) i n :
  (i + n <= length l)%nat -> length (firstn n (skipn i l)) = n.
Proof. intros H. rewrite firstn_length, skipn_length. lia. Qed.

Lemma zbe16_2 {E} l : length l = 2%nat -> @zbe16 E l = Ok (be16 l).
Proof.
  intros H. unfold zbe16. destruct l as [|a [|b [|c l]]]; try discriminate H. reflexivity.
Qed.
Lemma zle16_2 {E} l : length l = 2%nat -> @zle16 E l = Ok (le16 l).
Proof.
  intros H. unfold zle16. destruct l as [|a [|b [|c l]]]; try discriminate H. reflexivity.
Qed.
