(* GenPrelude4.v -- vocabulary of gen/BuilderGen.v (builder.go / splitter.go of package modbus). *)
Require Import MB.GoSem MB.CrcModel MB.PacketModel MB.RegistersSpec MB.RegistersModel MB.BuilderSpec MB.BuilderModel.
Require Import MB.GenPrelude MB.GenPrelude2.
Open Scope N_scope.

(* for i, x := range l { if c { return v } }: the first element (in order) for which f yields a value *)
Fixpoint find_from {A R} (f : Z -> A -> option R) (i : Z) (l : list A) : option R :=
  match l with
  | [] => None
  | x :: r => match f i x with Some v => Some v | None => find_from f (i + 1)%Z r end
  end.
Definition find_first {A R} (f : Z -> A -> option R) (l : list A) : option R := find_from f 0%Z l.

(* sort.Sort(S(x)) with Less given on elements: insertion sort (see the header of gen/BuilderGen.v for
   the trusted assumption) *)
Fixpoint ins_by {A} (less : A -> A -> bool) (s : A) (l : list A) : list A :=
  match l with
  | [] => [s]
  | x :: r => if less x s then x :: ins_by less s r else s :: l
  end.
Fixpoint sort_by {A} (less : A -> A -> bool) (l : list A) : list A :=
  match l with [] => [] | s :: r => ins_by less s (sort_by less r) end.

(* ---------- vocabulary of the obligations (Properties/Gen_Builder.v) ---------- *)
(* Field.Validate returns an error value; the model a pres unit *)
Definition refusal (x : pres unit) : pres (option perr) :=
  match x with Ok _ => Ok None | Err e => Ok (Some e) | Panic => Panic end.
(* Field.ExtractFrom: the model names the errors of extraction; the generated code has one error value *)
Definition xplain (A : Type) (x : res xerr A) : pres A := map_err (fun _ => EPlain) x.
Arguments xplain {A} x.
(* slot addresses are uint16 values *)
Definition slot_ok (s : slot) : Prop := s_addr s < 65536.
Definition group_ok (g : sgroup) : Prop := Forall slot_ok (g_slots g).
