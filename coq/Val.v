(* Val.v -- the universal value type in which the correspondence cases are written.
   The Go harness prints inputs and projected outcomes in this form, the driver parses them, the
   model side (Dispatch.v) computes on them.  Syntax on a line:  123  -5  x0a1b  [v,v,...] *)
Require Import MB.GoSem.
From Coq Require Import String.
Open Scope N_scope.

Inductive val := VI (z : Z) | VB (bs : list N) | VL (vs : list val).

Fixpoint val_eqb (a b : val) {struct a} : bool :=
  match a, b with
  | VI x, VI y => Z.eqb x y
  | VB x, VB y => list_eqb x y
  | VL x, VL y =>
      (fix go (x y : list val) {struct x} : bool :=
         match x, y with
         | [], [] => true
         | u :: x', v :: y' => val_eqb u v && go x' y'
         | _, _ => false
         end) x y
  | _, _ => false
  end.

Definition vN (n : N) : val := VI (Z.of_N n).
Definition vnat (n : nat) : val := VI (Z.of_nat n).
Definition vbool (b : bool) : val := VI (if b then 1 else 0)%Z.

(* outcome classes *)
Definition v_ok (payload : list val) : val := VL (VI 0%Z :: payload).
Definition v_err (info : list val) : val := VL (VI 1%Z :: info).
Definition v_panic : val := VL [VI 2%Z].
Definition v_bad : val := VL [VI 99%Z].   (* malformed case / unknown entry: always a mismatch *)

Definition zN (z : Z) : N := Z.to_N z.
Definition zbool (z : Z) : bool := negb (Z.eqb z 0).

(* verdict codes of the property statement evaluated on an implementation outcome *)
Definition HOLDS : N := 0.
Definition VIOLATES : N := 1.
Definition NOT_JUDGED : N := 2.
(* >= 100: violates, inside the region of the known finding with that number *)
