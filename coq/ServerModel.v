(* ServerModel.v -- hand-written, executable transcription of the request/reply path of package
   server (the repaired tree): server/modbus.go (ModbusTCPAssembler.ReceiveRead, handle) and the
   read/handle/write loop of connection.handle in server/server.go.  The life cycle (accept,
   tracking, Shutdown) is not part of this file.

   External behaviour is explicit: the user's ModbusHandler is the [Section] variable [handler];
   what the transport delivers is the list of chunks the successive conn.Read calls return.

   Conventions
   * the reassembly buffer m.received (a bytes.Buffer) is the list of its unread bytes;
   * `response []byte` is the list of its bytes; in Go it starts as nil and only grows by
     `append(response, x...)`, which yields nil again when both are empty: response is nil iff it
     is empty, so "toSend != nil" is "the list is non-empty";
   * a panic anywhere below ReceiveRead unwinds through connection.handle into the deferred
     recover of the connection goroutine: nothing of that read is written, the connection ends. *)
Require Import MB.GoSem MB.PacketModel.
Open Scope N_scope.

(* what ModbusHandler.Handle(ctx, request) can do, as far as server/modbus.go can tell *)
Inductive handler_result :=
| HResp (bytes : list N)   (* (resp, nil): a packet whose Bytes() returns these bytes *)
| HErrTyped (code : N)     (* (_, err) and errors.As(err, **packet.ErrorParseTCP) succeeds: target.Packet.Code *)
| HErrGeneric              (* (_, err) with any other non-nil error (errors.New, a wrapped io error, an
                              ErrorParseTCP passed by value, ...) *)
| HPanic.                  (* Handle panics, or returns (nil, nil) so that resp.Bytes() dereferences nil *)

(* how a call of ReceiveRead / the connection goroutine stands afterwards *)
Inductive status :=
| Open        (* closeConnection = false: keep reading *)
| Closed      (* closeConnection = true: the reply is written, then the connection is closed *)
| Panicked    (* a panic unwound the call: recovered per connection, connection closed, nothing written *)
| OutOfFuel.  (* artefact of the fuelled loop; never reached with the fuel used below (ServerProofs) *)

Record rr := { r_buf : list N; r_out : list N; r_status : status }.

Section Server.
(* the handler sees the parsed request: transaction id and request *)
Variable handler : N * req -> handler_result.

(* func (m *ModbusTCPAssembler) handle(ctx, frame []byte) []byte  -- Panic = the call panics *)
Definition handle (frame : slice) : pres (list N) :=
  match parse_tcp_request frame with
  | Panic => Panic
  | Err e =>
      (* return err.( *packet.ErrorParseTCP).Bytes() : the assertion panics for any other error type *)
      match err_wire_tcp e with Some w => Ok w | None => Panic end
  | Ok p =>
      match handler p with
      | HResp w => Ok w                                   (* return resp.Bytes() *)
      | HPanic => Panic
      | HErrTyped code =>
          (* errResp := ErrorResponseTCP{binary.BigEndian.Uint16(frame[0:2]), frame[6], frame[7], ErrUnknown};
             errors.As(err, &target) => errResp.Code = target.Packet.Code; return errResp.Bytes() *)
          let* t := sub frame 0 2 in
          let* u := idx frame 6 in
          let* f := idx frame 7 in
          Ok (exc_bytes_tcp (mk_exc (be16 t) u f code))
      | HErrGeneric =>
          let* t := sub frame 0 2 in
          let* u := idx frame 6 in
          let* f := idx frame 7 in
          Ok (exc_bytes_tcp (mk_exc (be16 t) u f 0))      (* packet.ErrUnknown = 0 *)
      end
  end.

(* the reply to the frame cut off by m.received.Next(n) when the classifier returned (n, err):
   `if err != nil { response = append(response, err.( *packet.ErrorParseTCP).Bytes()...); continue }`
   (a packet with an unsupported function code is answered and skipped), else m.handle(ctx, frame) *)
Definition answer (frame : slice) (err : option perr) : pres (list N) :=
  match err with
  | Some e => match err_wire_tcp e with Some w => Ok w | None => Panic end
  | None => handle frame
  end.

Definition panicked (b : list N) : rr := {| r_buf := b; r_out := []; r_status := Panicked |}.

(* the `for { ... }` of ReceiveRead on the buffered bytes [b] with the accumulated [response].
   m.received.Bytes() has no meaningful spare capacity for the classifier (it only indexes below
   8 after its length check); m.received.Next(n) is buf[off:off+n], a slice whose capacity
   reaches into the following buffered bytes: they are the spare capacity of [frame]. *)
Fixpoint drain (fuel : nat) (b : list N) (response : list N) : rr :=
  match fuel with
  | O => {| r_buf := b; r_out := response; r_status := OutOfFuel |}
  | S fuel' =>
    match looks_like (exact b) false with
    | Panic | Err _ => panicked b
    | Ok (n, err) =>
      match err with
      | Some ETooShortTCP =>                    (* err == packet.ErrTCPDataTooShort: wait for more data *)
          {| r_buf := b; r_out := response; r_status := Open |}
      | _ =>
        if n =? 0 then
          (* m.received.Reset(); return append(response, err.( *packet.ErrorParseTCP).Bytes()...), true *)
          match err with
          | Some e => match err_wire_tcp e with
                      | Some w => {| r_buf := []; r_out := response ++ w; r_status := Closed |}
                      | None => panicked []
                      end
          | None => panicked []                  (* type assertion on a nil interface *)
          end
        else if (N.of_nat (length b) <? n) then  (* m.received.Len() < n: wait for the rest *)
          {| r_buf := b; r_out := response; r_status := Open |}
        else
          let k := N.to_nat n in
          let frame := {| vis := firstn k b; spare := skipn k b |} in   (* m.received.Next(n) *)
          let b' := skipn k b in
          match answer frame err with
          | Ok w => drain fuel' b' (response ++ w)
          | _ => panicked b'
          end
      end
    end
  end.

(* func (m *ModbusTCPAssembler) ReceiveRead(ctx, received, bytesRead) (response, closeConnection):
   m.received.Write(received), then the loop.  Every turn of the loop that continues consumes a
   frame of at least 8 bytes, so |buffer|+1 turns are more than enough. *)
Definition receive_read (buf chunk : list N) : rr :=
  let b := buf ++ chunk in drain (S (length b)) b [].

(* ---- the connection goroutine: connection.handle ---- *)
(* per-connection state: the assembler's buffer, every byte passed to conn.Write so far, and
   whether the goroutine is still in its loop *)
Record conn := { c_buf : list N; c_written : list N; c_status : status }.
Definition conn_init : conn := {| c_buf := []; c_written := []; c_status := Open |}.

(* one call of c.assembler.ReceiveRead followed by `if toSend != nil { conn.Write(toSend) }` and
   `if closeConn { return }`; once the goroutine has returned nothing happens any more *)
Definition asm_read (c : conn) (chunk : list N) : conn :=
  match c_status c with
  | Open =>
      let r := receive_read (c_buf c) chunk in
      match r_status r with
      | Panicked => {| c_buf := r_buf r; c_written := c_written c; c_status := Panicked |}
      | st =>
          {| c_buf := r_buf r;
             c_written := match r_out r with [] => c_written c | o => c_written c ++ o end;
             c_status := st |}
      end
  | _ => c
  end.

(* one turn of the read loop: conn.Read returned [chunk]; n = 0 (read deadline exceeded, not idle
   yet) is `continue`.  (Read errors other than a deadline, the idle timeout, a failing Write and
   a concurrent Shutdown end the loop as well; they are outside the request/reply properties.) *)
Definition conn_read (c : conn) (chunk : list N) : conn :=
  match chunk with
  | [] => c
  | _ => asm_read c chunk
  end.

Definition conn_run (chunks : list (list N)) : conn := fold_left conn_read chunks conn_init.

(* conn.Read may return bytes together with os.ErrDeadlineExceeded.  The loop only tests
   `err != nil && !errors.Is(err, os.ErrDeadlineExceeded)` (end of the loop) and `n > 0`: a
   deadline error does not matter, the n bytes are handled like any others.  A read event is
   the chunk and whether it came with the deadline error. *)
Definition conn_read_ev (c : conn) (ev : list N * bool) : conn := conn_read c (fst ev).
Definition conn_run_ev (events : list (list N * bool)) : conn := fold_left conn_read_ev events conn_init.

(* conn.Write may fail after the transport accepted only the first k bytes (a write timeout, a
   reset): `if _, err := conn.Write(toSend); err != nil { c.onErrorFunc(err); return }` -- the
   k bytes are on the wire, nothing is retried, the connection ends.  [conn_read_w c ev (Some k)] is
   the turn of the loop in which the Write (if this read causes one) fails that way; the flag says
   that the loop ended by a failed write. *)
Definition conn_read_w (c : conn) (ev : list N * bool) (fail : option nat) : conn * bool :=
  let c' := conn_read_ev c ev in
  match fail with
  | None => (c', false)
  | Some k =>
      let sent := skipn (length (c_written c)) (c_written c') in   (* toSend of this turn *)
      match sent with
      | [] => (c', false)                                         (* toSend == nil: no Write *)
      | _ => ({| c_buf := c_buf c'; c_written := c_written c ++ firstn k sent; c_status := Closed |}, true)
      end
  end.

(* the states after each read, for the per-read observations *)
Fixpoint conn_trace (c : conn) (chunks : list (list N)) : list conn :=
  match chunks with
  | [] => []
  | ch :: rest => let c' := conn_read c ch in c' :: conn_trace c' rest
  end.
Fixpoint asm_trace (c : conn) (chunks : list (list N)) : list conn :=
  match chunks with
  | [] => []
  | ch :: rest => let c' := asm_read c ch in c' :: asm_trace c' rest
  end.

(* ---- several connections of one server: each goroutine owns its assembler ---- *)
Fixpoint server_read (conns : list conn) (i : nat) (chunk : list N) : list conn :=
  match conns, i with
  | [], _ => []
  | c :: rest, O => conn_read c chunk :: rest
  | c :: rest, S i' => c :: server_read rest i' chunk
  end.
Definition server_run (conns : list conn) (events : list (nat * list N)) : list conn :=
  fold_left (fun s ev => server_read s (fst ev) (snd ev)) events conns.

End Server.
