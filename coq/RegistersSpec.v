(* RegistersSpec.v -- what a typed access to a register response has to return (property C04),
   written from the meaning of the response payload and of the byte/word-order flags, not from
   the control flow of packet/registers.go.

   The payload of a FC3/FC4/FC23 response is a sequence of 16 bit registers, each sent high byte
   first (MODBUS Application Protocol V1.1b3, 4.2/4.3); the first register of the payload is the
   one at the request's start address.  An access to [n] registers starting at [addr] is defined
   iff all of them lie in the window [start, start+count); its value is a function of exactly
   those [n] registers.

   Flags (doc comments of packet.ByteOrder, registers.go:11-79, and builder.go):
     BigEndian     (1)  the value's most significant byte is at the smallest memory address
                        (this is also the order inside a Modbus register);
     LittleEndian  (2)  the value's least significant byte is at the smallest memory address;
     LowWordFirst  (4)  the 16 bit words of that memory image are transmitted in reversed
                        order (last word of the image in the first register);
     HighWordFirst (8)  the words are transmitted in image order (this is also what happens
                        when neither word flag is given);
     0                  "use the default order of the Registers object".
   Numbers are big endian unless LittleEndian is given; LowWordFirst wins over HighWordFirst.
   Strings: one character per byte; under BigEndian a register holds its two characters in
   swapped order (second character in the high byte); the string ends before the first NUL. *)
Require Import MB.GoSem.
Open Scope N_scope.

(* ---------- vocabulary shared with the model: accessors and the values they return ---------- *)
Inductive aval :=
| VBool (b : bool)         (* Bit *)
| VInt (z : Z)             (* integers; floats as their IEEE-754 bit pattern *)
| VBytes (l : list N).     (* Register/DoubleRegister/QuadRegister; strings as the bytes of the Go string *)

Inductive accessor :=
| ABit (bit : N)
| AByte (fromHigh : bool) | AUint8 (fromHigh : bool) | AInt8 (fromHigh : bool)
| AUint16 | AInt16
| AUint32 | AUint32BO (bo : N) | AInt32 | AInt32BO (bo : N)
| AUint64 | AUint64BO (bo : N) | AInt64 | AInt64BO (bo : N)
| AFloat32 | AFloat32BO (bo : N) | AFloat64 | AFloat64BO (bo : N)
| AString (len : N) | AStringBO (len bo : N)
| ARegister | ADoubleRegister (bo : N) | AQuadRegister (bo : N).

(* ---------- the flags, as bits of the byte-order value ---------- *)
Definition big_endian (bo : N) : bool := N.testbit bo 0.
Definition little_endian (bo : N) : bool := N.testbit bo 1.
Definition low_word_first (bo : N) : bool := N.testbit bo 2.
(* 0 = use the object's default order *)
Definition effective (dflt bo : N) : N := if bo =? 0 then dflt else bo.

(* ---------- the payload as registers; the addressed window ---------- *)
Fixpoint regs_of (payload : list N) : list (N * N) :=
  match payload with
  | hi :: lo :: rest => (hi, lo) :: regs_of rest
  | _ => []
  end.

(* the [n] registers starting at [addr]; None when one of them is outside [start, start+count) *)
Definition window (payload : list N) (start addr n : N) : option (list (N * N)) :=
  let regs := regs_of payload in
  if (start <=? addr) && (addr + n <=? start + N.of_nat (length regs))
  then Some (firstn (N.to_nat n) (skipn (N.to_nat (addr - start)) regs))
  else None.

(* ---------- decoding ---------- *)
Definition reg_bytes (r : N * N) : list N := [fst r; snd r].
(* the registers as transmitted *)
Definition wire (regs : list (N * N)) : list N := flat_map reg_bytes regs.
(* the memory image of a multi-register value: the words as transmitted, or in reversed order *)
Definition image (bo : N) (regs : list (N * N)) : list N :=
  wire (if low_word_first bo then rev regs else regs).
(* a number from its bytes, most significant first / least significant first *)
Definition msb_first (bytes : list N) : N := fold_left (fun acc b => acc * 256 + b) bytes 0.
Definition lsb_first (bytes : list N) : N := msb_first (rev bytes).
Definition unsigned (bo : N) (regs : list (N * N)) : N :=
  if little_endian bo then lsb_first (image bo regs) else msb_first (image bo regs).
(* two's complement reading of a [bits]-bit pattern: the representative of v modulo 2^bits
   in [-2^(bits-1), 2^(bits-1)) *)
Definition twos (bits : N) (v : N) : Z :=
  (Z.of_N ((v + 2 ^ (bits - 1)) mod 2 ^ bits) - Z.of_N (2 ^ (bits - 1)))%Z.
(* the value of one register: high byte first on the wire *)
Definition reg_value (regs : list (N * N)) : N := msb_first (wire regs).

(* strings *)
Definition chars (bo : N) (regs : list (N * N)) : list N :=
  flat_map (fun r => if big_endian bo then [snd r; fst r] else [fst r; snd r]) regs.
Fixpoint until_nul (l : list N) : list N :=
  match l with
  | [] => []
  | c :: t => if c =? 0 then [] else c :: until_nul t
  end.
(* a Go string is UTF-8: a character (code point) below 128 is one byte, one in 128..2047 two *)
Definition utf8 (c : N) : list N := if c <? 128 then [c] else [192 + c / 64; 128 + c mod 64].
Definition text (bo : N) (len : N) (regs : list (N * N)) : list N :=
  flat_map utf8 (until_nul (firstn (N.to_nat len) (chars bo regs))).

(* number of registers an accessor addresses *)
Definition size_of (a : accessor) : N :=
  match a with
  | ABit _ | AByte _ | AUint8 _ | AInt8 _ | AUint16 | AInt16 | ARegister => 1
  | AUint32 | AUint32BO _ | AInt32 | AInt32BO _ | AFloat32 | AFloat32BO _ | ADoubleRegister _ => 2
  | AUint64 | AUint64BO _ | AInt64 | AInt64BO _ | AFloat64 | AFloat64BO _ | AQuadRegister _ => 4
  | AString len | AStringBO len _ => (len + 1) / 2
  end.

(* is the request itself meaningful (a register has bits 0..15) *)
Definition well_formed (a : accessor) : bool :=
  match a with ABit bit => bit <=? 15 | _ => true end.

Definition decode (dflt : N) (a : accessor) (regs : list (N * N)) : aval :=
  match a with
  | ABit bit => VBool (N.testbit (reg_value regs) bit)
  | AByte hi | AUint8 hi => VInt (Z.of_N (if hi then reg_value regs / 256 else reg_value regs mod 256))
  | AInt8 hi => VInt (twos 8 (if hi then reg_value regs / 256 else reg_value regs mod 256))
  | AUint16 => VInt (Z.of_N (unsigned dflt regs))
  | AInt16 => VInt (twos 16 (unsigned dflt regs))
  | AUint32 | AUint64 | AFloat32 | AFloat64 => VInt (Z.of_N (unsigned dflt regs))
  | AUint32BO bo | AUint64BO bo | AFloat32BO bo | AFloat64BO bo => VInt (Z.of_N (unsigned (effective dflt bo) regs))
  | AInt32 => VInt (twos 32 (unsigned dflt regs))
  | AInt32BO bo => VInt (twos 32 (unsigned (effective dflt bo) regs))
  | AInt64 => VInt (twos 64 (unsigned dflt regs))
  | AInt64BO bo => VInt (twos 64 (unsigned (effective dflt bo) regs))
  | AString len => VBytes (text dflt len regs)
  | AStringBO len bo => VBytes (text (effective dflt bo) len regs)
  | ARegister => VBytes (wire regs)
  (* the raw accessors take the word order literally: 0 is "no flag", not "default" *)
  | ADoubleRegister bo | AQuadRegister bo => VBytes (image bo regs)
  end.

(* C04: the value of the addressed registers, or nothing *)
Definition spec_access (payload : list N) (start dflt : N) (a : accessor) (addr : N) : option aval :=
  if well_formed a then option_map (decode dflt a) (window payload start addr (size_of a)) else None.

(* NewRegisters accepts exactly the payloads that are a non-empty sequence of registers *)
Definition spec_payload_ok (payload : list N) : bool :=
  (1 <=? length (regs_of payload))%nat && (N.of_nat (length payload) mod 2 =? 0).
