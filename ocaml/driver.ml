(* driver.ml -- correspondence driver.
   Reads cases "entry<TAB>args<TAB>outcome" (outcome = what the Go implementation did) from stdin,
   recomputes each with the model extracted from Coq (Model.e_run), judges the implementation's
   outcome with the property's executable statement (Model.e_verdict), and writes a JSON summary.
   Hand-written glue: only the parser/printer of the value syntax and the bookkeeping. *)

module M = Model

let rec pos_of_int (i : int) : M.positive =
  if i = 1 then M.XH
  else if i land 1 = 0 then M.XO (pos_of_int (i lsr 1))
  else M.XI (pos_of_int (i lsr 1))

let n_of_int (i : int) : M.n = if i = 0 then M.N0 else M.Npos (pos_of_int i)
let z_of_int (i : int) : M.z =
  if i = 0 then M.Z0 else if i > 0 then M.Zpos (pos_of_int i) else M.Zneg (pos_of_int (-i))

(* big decimal -> Z through the extracted arithmetic (rare: only values beyond 18 digits) *)
let z_of_decimal (s : string) : M.z =
  let neg = String.length s > 0 && s.[0] = '-' in
  let start = if neg then 1 else 0 in
  if String.length s - start <= 18 then z_of_int (int_of_string s)
  else begin
    let acc = ref M.Z0 in
    let ten = z_of_int 10 in
    for i = start to String.length s - 1 do
      acc := M.Z.add (M.Z.mul !acc ten) (z_of_int (Char.code s.[i] - 48))
    done;
    if neg then M.Z.opp !acc else !acc
  end

let byte_table : M.n array = Array.init 256 n_of_int

let coq_string (s : string) : M.string =
  let r = ref M.EmptyString in
  for i = String.length s - 1 downto 0 do
    let c = Char.code s.[i] in
    let b k = (c lsr k) land 1 = 1 in
    r := M.String (M.Ascii (b 0, b 1, b 2, b 3, b 4, b 5, b 6, b 7), !r)
  done;
  !r

exception Parse_error of string

let hexval c =
  match c with
  | '0' .. '9' -> Char.code c - 48
  | 'a' .. 'f' -> Char.code c - 87
  | 'A' .. 'F' -> Char.code c - 55
  | _ -> raise (Parse_error "hex")

(* val := int | 'x' hex* | '[' (val (',' val)* )? ']' *)
let parse_val (s : string) : M.val0 =
  let len = String.length s in
  let pos = ref 0 in
  let rec value () : M.val0 =
    if !pos >= len then raise (Parse_error "eof");
    match s.[!pos] with
    | 'x' ->
        incr pos;
        let start = !pos in
        while !pos < len && (match s.[!pos] with '0' .. '9' | 'a' .. 'f' | 'A' .. 'F' -> true | _ -> false) do incr pos done;
        let n = !pos - start in
        if n land 1 = 1 then raise (Parse_error "odd hex");
        let l = ref [] in
        let i = ref (!pos - 2) in
        while !i >= start do
          l := byte_table.(hexval s.[!i] * 16 + hexval s.[!i + 1]) :: !l;
          i := !i - 2
        done;
        M.VB !l
    | '[' ->
        incr pos;
        if !pos < len && s.[!pos] = ']' then (incr pos; M.VL [])
        else begin
          let items = ref [] in
          let continue = ref true in
          while !continue do
            items := value () :: !items;
            if !pos >= len then raise (Parse_error "eof in list");
            (match s.[!pos] with
             | ',' -> incr pos
             | ']' -> incr pos; continue := false
             | _ -> raise (Parse_error "list sep"))
          done;
          M.VL (List.rev !items)
        end
    | '-' | '0' .. '9' ->
        let start = !pos in
        incr pos;
        while !pos < len && (match s.[!pos] with '0' .. '9' -> true | _ -> false) do incr pos done;
        M.VI (z_of_decimal (String.sub s start (!pos - start)))
    | _ -> raise (Parse_error "char")
  in
  let v = value () in
  if !pos <> len then raise (Parse_error "trailing");
  v

let rec int_of_pos (p : M.positive) : int =
  match p with M.XH -> 1 | M.XO q -> 2 * int_of_pos q | M.XI q -> 2 * int_of_pos q + 1
let rec pos_bits (p : M.positive) : int = match p with M.XH -> 1 | M.XO q | M.XI q -> 1 + pos_bits q
let int_of_n (x : M.n) : int = match x with M.N0 -> 0 | M.Npos p -> int_of_pos p

(* decimal printing of arbitrarily large positives by repeated division through the model's Z *)
let rec string_of_big (zv : M.z) : string =
  match zv with
  | M.Z0 -> "0"
  | M.Zneg p -> "-" ^ string_of_big (M.Zpos p)
  | M.Zpos p ->
      if pos_bits p <= 60 then string_of_int (int_of_pos p)
      else begin
        let ten18 = z_of_int 1000000000000000000 in
        let q = M.Z.div zv ten18 and r = M.Z.modulo zv ten18 in
        let rs = (match r with M.Z0 -> "0" | M.Zpos rp -> string_of_int (int_of_pos rp) | M.Zneg _ -> "?") in
        string_of_big q ^ String.make (18 - String.length rs) '0' ^ rs
      end

let rec print_val (b : Buffer.t) (v : M.val0) : unit =
  match v with
  | M.VI zv -> Buffer.add_string b (string_of_big zv)
  | M.VB l ->
      Buffer.add_char b 'x';
      List.iter (fun x -> Buffer.add_string b (Printf.sprintf "%02x" (int_of_n x))) l
  | M.VL l ->
      Buffer.add_char b '[';
      List.iteri (fun i x -> if i > 0 then Buffer.add_char b ','; print_val b x) l;
      Buffer.add_char b ']'

let string_of_val v = let b = Buffer.create 64 in print_val b v; Buffer.contents b

let json_escape (s : string) : string =
  let b = Buffer.create (String.length s + 8) in
  String.iter (fun c ->
    match c with
    | '"' -> Buffer.add_string b "\\\""
    | '\\' -> Buffer.add_string b "\\\\"
    | '\n' -> Buffer.add_string b "\\n"
    | '\t' -> Buffer.add_string b "\\t"
    | c when Char.code c < 32 -> Buffer.add_string b (Printf.sprintf "\\u%04x" (Char.code c))
    | c -> Buffer.add_char b c) s;
  Buffer.contents b

type stats = {
  mutable cases : int;
  mutable mism : int;
  mutable viol : int;
  mutable holds : int;
  mutable unjudged : int;
  mutable ok_out : int;
  mutable err_out : int;
  mutable panic_out : int;
  mutable samples : string list;
}

let () =
  let out_path = if Array.length Sys.argv > 1 then Sys.argv.(1) else "/dev/stdout" in
  let max_keep = if Array.length Sys.argv > 2 then int_of_string Sys.argv.(2) else 20 in
  let golden_path = if Array.length Sys.argv > 3 then Some Sys.argv.(3) else None in
  let prop = n_of_int (if Array.length Sys.argv > 4 then int_of_string Sys.argv.(4) else 0) in
  let golden = ref [] and n_golden = ref 0 in
  let entries : (string, M.entry option) Hashtbl.t = Hashtbl.create 64 in
  let per_entry : (string, stats) Hashtbl.t = Hashtbl.create 64 in
  let seen : (int, unit) Hashtbl.t = Hashtbl.create 100000 in
  let known : (int, int * string) Hashtbl.t = Hashtbl.create 16 in   (* kf code -> count, first witness *)
  let mism_list = ref [] and viol_list = ref [] and bad_lines = ref [] in
  let total = ref 0 and distinct = ref 0 and distinct_judged = ref 0 in
  let n_mism = ref 0 and n_viol = ref 0 and n_bad = ref 0 in
  (try
     while true do
       let line = input_line stdin in
       if String.length line > 0 && line.[0] <> '#' then begin
         incr total;
         match String.split_on_char '\t' line with
         | [name; args_s; out_s] ->
             let st =
               match Hashtbl.find_opt per_entry name with
               | Some s -> s
               | None ->
                   let s = { cases = 0; mism = 0; viol = 0; holds = 0; unjudged = 0; ok_out = 0; err_out = 0; panic_out = 0; samples = [] } in
                   Hashtbl.add per_entry name s; s
             in
             st.cases <- st.cases + 1;
             if List.length st.samples < 3 then st.samples <- line :: st.samples;
             if !n_golden < 300 && (st.cases <= 6 || st.cases mod 997 = 0) && String.length line < 2500 then begin
               golden := line :: !golden; incr n_golden
             end;
             let h = Hashtbl.hash (name, args_s) in
             let h2 = Hashtbl.hash (args_s ^ name) in
             let key = h * 1073741827 + h2 in
             let is_new = not (Hashtbl.mem seen key) in
             if is_new then begin Hashtbl.add seen key (); incr distinct end;
             let e =
               match Hashtbl.find_opt entries name with
               | Some e -> e
               | None -> let e = M.lookup (coq_string name) in Hashtbl.add entries name e; e
             in
             (match e with
              | None ->
                  incr n_bad;
                  if List.length !bad_lines < max_keep then bad_lines := ("unknown entry: " ^ line) :: !bad_lines
              | Some e ->
                  (try
                     let args = (match parse_val args_s with M.VL l -> l | v -> [v]) in
                     let out = parse_val out_s in
                     (match out with
                      | M.VL (M.VI M.Z0 :: _) -> st.ok_out <- st.ok_out + 1
                      | M.VL (M.VI (M.Zpos M.XH) :: _) -> st.err_out <- st.err_out + 1
                      | M.VL (M.VI (M.Zpos (M.XO M.XH)) :: _) -> st.panic_out <- st.panic_out + 1
                      | _ -> ());
                     let mo = e.M.e_run args in
                     let is_m = not (mo = out) in
                     if is_m then begin
                       incr n_mism; st.mism <- st.mism + 1;
                       if List.length !mism_list < max_keep then
                         mism_list := (line, string_of_val mo) :: !mism_list
                     end;
                     let code = int_of_n (e.M.e_verdict prop args out) in
                     if is_new && code <> 2 then incr distinct_judged;
                     if code = 0 then st.holds <- st.holds + 1
                     else if code = 2 then st.unjudged <- st.unjudged + 1
                     else if code = 1 then begin
                       incr n_viol; st.viol <- st.viol + 1;
                       if List.length !viol_list < max_keep then
                         viol_list := (line, string_of_val mo, is_m) :: !viol_list
                     end else begin
                       (* known-finding region: counted separately; if the model disagrees it is
                          still reported as a mismatch above *)
                       let (c, w) = (match Hashtbl.find_opt known code with Some x -> x | None -> (0, line)) in
                       Hashtbl.replace known code (c + 1, w)
                     end
                   with Parse_error m ->
                     incr n_bad;
                     if List.length !bad_lines < max_keep then bad_lines := ("parse error " ^ m ^ ": " ^ line) :: !bad_lines))
         | _ ->
             incr n_bad;
             if List.length !bad_lines < max_keep then bad_lines := ("malformed line: " ^ line) :: !bad_lines
       end
     done
   with End_of_file -> ());
  (match golden_path with
   | Some gp ->
       let gc = open_out gp in
       List.iter (fun l -> output_string gc l; output_char gc '\n') (List.rev !golden);
       close_out gc
   | None -> ());
  let oc = open_out out_path in
  let pr fmt = Printf.fprintf oc fmt in
  pr "{\n \"evaluations\": %d,\n \"distinct\": %d,\n \"distinct_judged\": %d,\n \"mismatches\": %d,\n \"violations\": %d,\n \"bad_lines\": %d,\n" !total !distinct !distinct_judged !n_mism !n_viol !n_bad;
  pr " \"entries\": {";
  let first = ref true in
  Hashtbl.iter (fun name st ->
    if not !first then pr ",";
    first := false;
    pr "\n  \"%s\": {\"cases\": %d, \"mismatches\": %d, \"violations\": %d, \"holds\": %d, \"not_judged\": %d, \"ok\": %d, \"err\": %d, \"panic\": %d, \"samples\": [%s]}"
      (json_escape name) st.cases st.mism st.viol st.holds st.unjudged st.ok_out st.err_out st.panic_out
      (String.concat "," (List.rev_map (fun s -> "\"" ^ json_escape s ^ "\"") st.samples))) per_entry;
  pr "\n },\n \"known\": {";
  first := true;
  Hashtbl.iter (fun code (c, w) ->
    if not !first then pr ",";
    first := false;
    pr "\n  \"%d\": {\"count\": %d, \"witness\": \"%s\"}" code c (json_escape w)) known;
  pr "\n },\n \"mismatch_list\": [";
  first := true;
  List.iter (fun (l, mo) ->
    if not !first then pr ",";
    first := false;
    pr "\n  {\"case\": \"%s\", \"model\": \"%s\"}" (json_escape l) (json_escape mo)) (List.rev !mism_list);
  pr "\n ],\n \"violation_list\": [";
  first := true;
  List.iter (fun (l, mo, is_m) ->
    if not !first then pr ",";
    first := false;
    pr "\n  {\"case\": \"%s\", \"model\": \"%s\", \"model_differs\": %b}" (json_escape l) (json_escape mo) is_m) (List.rev !viol_list);
  pr "\n ],\n \"bad_list\": [%s]\n}\n"
    (String.concat "," (List.rev_map (fun s -> "\"" ^ json_escape s ^ "\"") !bad_lines));
  close_out oc
