(* Extract.v -- extraction of the executable model for the correspondence driver.
   ExtrOcamlBasic only: bool, option, unit, list, prod, sumbool, sumor and the inlined
   andb/orb/negb/fst/snd.  N, Z, positive, nat, string stay the extracted Coq inductives. *)
Require Import MB.GoSem MB.Val MB.Entry MB.Dispatch.
From Coq Require Import ExtrOcamlBasic.
Extraction Language OCaml.
Extraction "model.ml" lookup e_name e_run e_verdict val_eqb Z.add Z.mul Z.div Z.modulo Z.opp.
