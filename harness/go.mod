module verif/harness

go 1.22

require github.com/aldas/go-modbus-client v0.0.0

replace github.com/aldas/go-modbus-client => /repo
