package main

// The value syntax shared with the Coq side (coq/Val.v):  123  -5  x0a1b  [v,v,...]

import (
	"bufio"
	"encoding/hex"
	"os"
	"strconv"
	"strings"
)

type V interface{ put(b *strings.Builder) }

type vInt int64
type vUint uint64
type vBytes []byte
type vList []V

func (v vInt) put(b *strings.Builder)  { b.WriteString(strconv.FormatInt(int64(v), 10)) }
func (v vUint) put(b *strings.Builder) { b.WriteString(strconv.FormatUint(uint64(v), 10)) }
func (v vBytes) put(b *strings.Builder) {
	b.WriteByte('x')
	b.WriteString(hex.EncodeToString(v))
}
func (v vList) put(b *strings.Builder) {
	b.WriteByte('[')
	for i, x := range v {
		if i > 0 {
			b.WriteByte(',')
		}
		x.put(b)
	}
	b.WriteByte(']')
}

func I(n int) V      { return vInt(n) }
func U(n uint64) V   { return vUint(n) }
func B(p []byte) V   { return vBytes(append([]byte(nil), p...)) }
func S(s string) V   { return vBytes([]byte(s)) }
func L(xs ...V) V    { return vList(xs) }
func Bool(x bool) V {
	if x {
		return vInt(1)
	}
	return vInt(0)
}

func vOk(xs ...V) V  { return vList(append([]V{vInt(0)}, xs...)) }
func vErr(xs ...V) V { return vList(append([]V{vInt(1)}, xs...)) }
func vPanic() V      { return vList([]V{vInt(2)}) }

var out = bufio.NewWriterSize(os.Stdout, 1<<20)
var emitted int

func emit(entry string, args V, outcome V) {
	var b strings.Builder
	b.WriteString(entry)
	b.WriteByte('\t')
	args.put(&b)
	b.WriteByte('\t')
	outcome.put(&b)
	b.WriteByte('\n')
	out.WriteString(b.String())
	emitted++
}

// guard runs f and turns a panic into the panic outcome
func guard(f func() V) (res V) {
	defer func() {
		if r := recover(); r != nil {
			res = vPanic()
		}
	}()
	return f()
}
