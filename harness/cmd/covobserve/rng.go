package main

// One PRNG state (splitmix64) from which every random choice of a run is derived.

type rng struct{ s uint64 }

func newRng(seed uint64) *rng { return &rng{s: seed*0x9E3779B97F4A7C15 + 0x1234567} }

func (r *rng) next() uint64 {
	r.s += 0x9E3779B97F4A7C15
	z := r.s
	z = (z ^ (z >> 30)) * 0xBF58476D1CE4E5B9
	z = (z ^ (z >> 27)) * 0x94D049BB133111EB
	return z ^ (z >> 31)
}
func (r *rng) intn(n int) int {
	if n <= 0 {
		return 0
	}
	return int(r.next() % uint64(n))
}
func (r *rng) u8() uint8   { return uint8(r.next()) }
func (r *rng) u16() uint16 { return uint16(r.next()) }
func (r *rng) bool() bool  { return r.next()&1 == 1 }
func (r *rng) bytes(n int) []byte {
	b := make([]byte, n)
	for i := range b {
		b[i] = byte(r.next())
	}
	return b
}
func (r *rng) pick(xs []int) int { return xs[r.intn(len(xs))] }

// edge-biased 16 bit value
func (r *rng) edge16() uint16 {
	switch r.intn(6) {
	case 0:
		return uint16(r.intn(6))
	case 1:
		return uint16(65535 - r.intn(6))
	case 2:
		return uint16(32768 - 3 + r.intn(6))
	case 3:
		return uint16(256*r.intn(256) + r.pick([]int{0, 1, 255}))
	default:
		return r.u16()
	}
}
