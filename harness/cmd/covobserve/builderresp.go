package main

// Builder layer: the "extract_resp" stream.  The first request of the builder (sorted order) is
// handed arbitrary response frames: the type switch of ExtractFields (register responses
// including FC23 and the FC6 echo, coil responses, every other response unsupported), members of
// the wrong kind for the response, payloads of any length.  Correspondence only.

import (
	modbus "github.com/aldas/go-modbus-client"
	"github.com/aldas/go-modbus-client/packet"
)

func init() {
	streams["extract_resp"] = streamExtractResp
}

func respFrame(tcp bool, tid uint16, unit byte, pdu []byte) []byte {
	var frame []byte
	if tcp {
		l := 1 + len(pdu)
		frame = append([]byte{byte(tid >> 8), byte(tid), 0, 0, byte(l >> 8), byte(l), unit}, pdu...)
	} else {
		frame = append([]byte{unit}, pdu...)
		c := deviceCRC(frame)
		frame = append(frame, byte(c), byte(c>>8))
	}
	out := make([]byte, len(frame))
	copy(out, frame)
	return out
}

func extractRespCase(target int, fields []modbus.Field, tcp bool, frame []byte) {
	var tids []V
	outcome := guard(func() V {
		reqs, err := callBuilder(target, fields, false)
		if err != nil {
			return vErr(Bool(reqs == nil))
		}
		sortRequests(reqs)
		for _, q := range reqs {
			tid, _ := projReq(q.Request)
			tids = append(tids, I(tid))
		}
		if len(reqs) == 0 {
			return L(I(5))
		}
		var resp packet.Response
		var perr error
		if tcp {
			resp, perr = packet.ParseTCPResponse(frame)
		} else {
			resp, perr = packet.ParseRTUResponseWithCRC(frame)
		}
		if perr != nil {
			return L(I(4))
		}
		q := reqs[0]
		strict := guard(func() V {
			vals, e := q.ExtractFields(resp, false)
			return projExtraction(fields, vals, e)
		})
		lenient := guard(func() V {
			vals, e := q.ExtractFields(resp, true)
			return projExtraction(fields, vals, e)
		})
		return vOk(strict, lenient)
	})
	emit("extract_resp", L(I(target), fieldVals(fields), vList(tids), B(frame), Bool(tcp)), outcome)
}

func streamExtractResp(seed uint64, thorough bool) {
	r := newRng(seed ^ 0xB07)
	n := 1500
	if thorough {
		n = 15000
	}
	for i := 0; i < n; i++ {
		target := r.intn(8)
		sc := genScenario(r)
		coilShare := 20
		if target < 4 {
			coilShare = 80
		}
		fields := genFields(r, sc, 1+r.intn(8), coilShare, false)
		if r.intn(3) == 0 {
			// keep the members close together so that a short payload reaches some of them
			for j := range fields {
				fields[j].Address = uint16(100 + r.intn(12))
				fields[j].ServerAddress = sc.servers[0]
				fields[j].UnitID = sc.units[0]
			}
		}
		tcp := r.bool()
		tid := r.u16()
		unit := r.u8()
		var pdu []byte
		switch r.intn(10) {
		case 0, 1, 2:
			nb := 2 * (1 + r.intn(20))
			fc := []byte{3, 4, 23}[r.intn(3)]
			pdu = append([]byte{fc, byte(nb)}, r.bytes(nb)...)
		case 3, 4:
			nb := 1 + r.intn(6)
			pdu = append([]byte{byte(1 + r.intn(2)), byte(nb)}, r.bytes(nb)...)
		case 5:
			pdu = append([]byte{6}, r.bytes(4)...)
		case 6:
			pdu = []byte{5, r.u8(), r.u8(), 0xFF, 0}
		case 7:
			pdu = append([]byte{byte(15 + r.intn(2))}, r.bytes(4)...)
		case 8:
			pdu = []byte{17, 2, 'a', 'b', 0xFF}
		case 9:
			pdu = []byte{byte(129 + r.intn(20)), byte(1 + r.intn(4))}
		}
		extractRespCase(target, fields, tcp, respFrame(tcp, tid, unit, pdu))
	}
}
