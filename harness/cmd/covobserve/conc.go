package main

// Stream "conc": the runtime supporting run of C14 (EVIDENCE, not a theorem).
// One case = one run: N goroutines x M Do calls (mixed request types) on ONE client, with
// concurrent Close / Connect, against the recording in-memory transport of conctransport.go.
// Kinds: 0 = modbus.Client with TCP framing, 1 = modbus.Client with RTU framing, 2 = SerialClient.
// Meant to be built with -race (the race detector is part of what the run exercises); works
// without it as well.

import (
	"bytes"
	"context"
	"net"
	"runtime"
	"sort"
	"sync"
	"sync/atomic"

	modbus "github.com/aldas/go-modbus-client"
	"github.com/aldas/go-modbus-client/packet"
)

func init() { streams["conc"] = streamConc }

type concCall struct {
	g, k  int
	req   packet.Request
	bytes []byte
	ok    bool
	reply []byte
}

// a request whose bytes are unique within the run: id goes into the transaction id (TCP) and
// into the start address (all kinds)
func concRequest(kind int, r *rng, id uint16) packet.Request {
	unit := uint8(1 + r.intn(4))
	tcp := kind == 0
	var req packet.Request
	var err error
	switch r.intn(5) {
	case 0:
		q := uint16(1 + r.intn(10))
		if tcp {
			var x *packet.ReadHoldingRegistersRequestTCP
			x, err = packet.NewReadHoldingRegistersRequestTCP(unit, id, q)
			if err == nil {
				x.TransactionID = id
				req = x
			}
		} else {
			req, err = nilIfErrC(packet.NewReadHoldingRegistersRequestRTU(unit, id, q))
		}
	case 1:
		q := uint16(1 + r.intn(10))
		if tcp {
			var x *packet.ReadInputRegistersRequestTCP
			x, err = packet.NewReadInputRegistersRequestTCP(unit, id, q)
			if err == nil {
				x.TransactionID = id
				req = x
			}
		} else {
			req, err = nilIfErrC(packet.NewReadInputRegistersRequestRTU(unit, id, q))
		}
	case 2:
		q := uint16(1 + r.intn(40))
		if tcp {
			var x *packet.ReadCoilsRequestTCP
			x, err = packet.NewReadCoilsRequestTCP(unit, id, q)
			if err == nil {
				x.TransactionID = id
				req = x
			}
		} else {
			req, err = nilIfErrC(packet.NewReadCoilsRequestRTU(unit, id, q))
		}
	case 3:
		data := r.bytes(2)
		if tcp {
			var x *packet.WriteSingleRegisterRequestTCP
			x, err = packet.NewWriteSingleRegisterRequestTCP(unit, id, data)
			if err == nil {
				x.TransactionID = id
				req = x
			}
		} else {
			req, err = nilIfErrC(packet.NewWriteSingleRegisterRequestRTU(unit, id, data))
		}
	default:
		data := r.bytes(2 * (1 + r.intn(4)))
		if tcp {
			var x *packet.WriteMultipleRegistersRequestTCP
			x, err = packet.NewWriteMultipleRegistersRequestTCP(unit, id, data)
			if err == nil {
				x.TransactionID = id
				req = x
			}
		} else {
			req, err = nilIfErrC(packet.NewWriteMultipleRegistersRequestRTU(unit, id, data))
		}
	}
	if err != nil {
		panic("conc: request constructor failed: " + err.Error())
	}
	return req
}

func nilIfErrC[T packet.Request](x T, err error) (packet.Request, error) {
	if err != nil {
		return nil, err
	}
	return x, nil
}

type concDoer interface {
	Do(ctx context.Context, req packet.Request) (packet.Response, error)
	Close() error
}

func concRun(kind int, r *rng, n, m int, nCloses int) {
	// everything random is drawn here, before any goroutine starts
	calls := make([][]*concCall, n)
	for g := 0; g < n; g++ {
		for k := 0; k < m; k++ {
			req := concRequest(kind, r, uint16(1+g*m+k))
			calls[g] = append(calls[g], &concCall{g: g, k: k, req: req, bytes: req.Bytes()})
		}
	}
	thresholds := make([]int, nCloses)
	yields := make([]int, nCloses)
	for i := range thresholds {
		thresholds[i] = r.intn(n*m + 1)
		yields[i] = r.intn(4)
	}
	sort.Ints(thresholds)

	var cmu sync.Mutex
	var conns []*memConn
	newConn := func() *memConn {
		c := &memConn{kind: kind}
		cmu.Lock()
		conns = append(conns, c)
		cmu.Unlock()
		return c
	}

	ctx := context.Background()
	var client concDoer
	var connect func()
	switch kind {
	case 0, 1:
		conf := modbus.ClientConfig{DialContextFunc: func(ctx context.Context, address string) (net.Conn, error) {
			return newConn(), nil
		}}
		var c *modbus.Client
		if kind == 0 {
			c = modbus.NewTCPClientWithConfig(conf)
		} else {
			c = modbus.NewRTUClientWithConfig(conf)
		}
		connect = func() { _ = c.Connect(ctx, "mem") }
		connect()
		client = c
	default:
		client = modbus.NewSerialClient(newConn())
		connect = func() {}
	}

	var panics, completed int32
	var wg sync.WaitGroup
	start := make(chan struct{})
	for g := 0; g < n; g++ {
		wg.Add(1)
		go func(mine []*concCall) {
			defer wg.Done()
			defer func() {
				if rec := recover(); rec != nil {
					atomic.AddInt32(&panics, 1)
				}
			}()
			<-start
			for _, c := range mine {
				resp, err := client.Do(ctx, c.req)
				if err == nil && resp != nil {
					c.ok = true
					c.reply = resp.Bytes()
				}
				atomic.AddInt32(&completed, 1)
			}
		}(calls[g])
	}
	// concurrent Close / Connect at the drawn points of progress
	// (two such goroutines with the same schedule, so that Close / Connect calls also overlap each other)
	for closer := 0; closer < 2; closer++ {
		wg.Add(1)
		go func() {
			defer wg.Done()
			defer func() {
				if rec := recover(); rec != nil {
					atomic.AddInt32(&panics, 1)
				}
			}()
			<-start
			for i, th := range thresholds {
				for int(atomic.LoadInt32(&completed)) < th {
					runtime.Gosched()
				}
				_ = client.Close()
				for y := 0; y < yields[i]; y++ {
					runtime.Gosched()
				}
				connect()
			}
		}()
	}
	close(start)
	wg.Wait()

	// ---- judge the record ----
	want := map[string]int{}
	own := true
	var callVals []V
	for g := 0; g < n; g++ {
		for _, c := range calls[g] {
			st := 1
			if c.ok {
				st = 0
				want[string(c.bytes)]++
				if !bytes.Equal(c.reply, concReply(kind, c.bytes)) {
					own = false
				}
			}
			callVals = append(callVals, L(I(c.g), I(c.k), B(c.bytes), I(st), B(c.reply)))
		}
	}
	whole := true
	var logVals []V
	for _, c := range conns {
		log, overlaps := c.snapshot()
		logVals = append(logVals, B(log))
		if overlaps != 0 {
			whole = false
		}
		w := log
		for len(w) > 0 {
			k := concFrameLen(kind, w)
			if k == 0 {
				whole = false
				break
			}
			want[string(w[:k])]--
			w = w[k:]
		}
	}
	for _, v := range want {
		if v != 0 {
			whole = false
		}
	}
	name := []string{"conc_tcp", "conc_rtu", "conc_serial"}[kind]
	emit(name, L(I(kind), L(logVals...), L(callVals...)), vOk(Bool(whole), Bool(own), Bool(panics == 0)))
}

func streamConc(seed uint64, thorough bool) {
	r := newRng(seed ^ 0xC14C14)
	runs, serialRuns := 80, 6
	if thorough {
		runs, serialRuns = 600, 40
	}
	for i := 0; i < runs; i++ {
		kind := i % 2
		n := 2 + r.intn(7)  // 2..8 goroutines
		m := 1 + r.intn(20) // 1..20 calls each
		concRun(kind, r, n, m, r.intn(6))
	}
	// the serial client sleeps 30 ms per exchange: few and small runs; Close at most once
	for i := 0; i < serialRuns; i++ {
		concRun(2, r, 2+r.intn(3), 1+r.intn(3), r.intn(2))
	}
}
