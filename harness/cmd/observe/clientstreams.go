package main

// Streams of the client layer: c07 (fragmentation), c08 (transport faults), c12 (corrupted RTU
// replies), c19 (the same scripts with and without hooks).

import (
	"encoding/binary"
	"time"

	"github.com/aldas/go-modbus-client/packet"
)

func init() {
	streams["c07"] = func(seed uint64, thorough bool) { clntStream(seed, thorough, false, clntGenC07) }
	streams["c08"] = func(seed uint64, thorough bool) { clntStream(seed, thorough, false, clntGenC08) }
	streams["c12"] = func(seed uint64, thorough bool) { clntStream(seed, thorough, false, clntGenC12) }
	streams["c19"] = clntStreamC19
	streams["c08seq"] = func(seed uint64, thorough bool) { clntStream(seed, thorough, false, clntGenSeq) }
	streams["cpar"] = clntStreamPar
}

type clntGen func(r *rng, thorough bool, f func(c *clntCase))

func clntStream(seed uint64, thorough bool, pair bool, g clntGen) {
	r := newRng(seed)
	run := &clntRunner{}
	n := 0
	g(r, thorough, func(c *clntCase) {
		c.pair = pair
		clntRotateCtor(c, &n)
		run.add(c)
	})
	run.flush()
}

// c19: a sample of all three generators, every case run without and with hooks
func clntStreamC19(seed uint64, thorough bool) {
	r := newRng(seed)
	run := &clntRunner{}
	i, n := 0, 0
	sample := func(every int) func(c *clntCase) {
		return func(c *clntCase) {
			i++
			if thorough || i%every == 0 {
				if c.ctor == 4 {
					return // nothing to compare without hooks and without a trace
				}
				c.pair = true
				clntRotateCtor(c, &n)
				run.add(c)
			}
		}
	}
	clntGenC07(r, false, sample(3))
	clntGenC08(r, false, sample(2))
	clntGenC12(r, false, sample(12))
	clntGenRolling(r, sample(1))
	clntGenShortWrite(r, sample(1))
	run.flush()
}

// clntRotateCtor: every case is run with one of the public constructors that yield its client kind
func clntRotateCtor(c *clntCase, n *int) {
	*n++
	if !c.ctorSet {
		c.ctor = (*n*7 + *n/5) % clntCtors[c.kind]
	}
	if c.ctor == 4 {
		return
	}
	// ... with hooks implemented on a pointer, on a struct value or on a func type
	c.hookKind = (*n / 3) % 3
	// ... and with the transport's deadline / end-of-stream errors in their different dynamic shapes
	// (bare sentinel, *net.OpError with Timeout(), wrapped with %w)
	vary := func(steps []clntStep, salt int) []clntStep {
		out := append([]clntStep(nil), steps...)
		for i := range out {
			switch out[i].rd {
			case clntRdTimeout:
				out[i].rd = []int{clntRdTimeout, clntRdTimeoutBare, clntRdTimeoutWrapped}[(*n+i+salt)%3]
			case clntRdEOF:
				out[i].rd = []int{clntRdEOF, clntRdEOFWrapped}[(*n+i+salt)%2]
			case clntRdIOErr:
				out[i].rd = []int{clntRdIOErr, clntRdIOErrTimeout}[(*n+i+salt)%2]
			}
		}
		return out
	}
	c.sc.steps = vary(c.sc.steps, 0)
	for j := range c.ops {
		c.ops[j].sc.steps = vary(c.ops[j].sc.steps, j)
	}
}

// ---------- requests ----------

// clntRq is a request built by the library's constructor, with the constructor arguments in the
// form of coq/DispPacket.v (ctor_args) and what is needed to build replies to it
type clntRq struct {
	fc    int
	fr    int // 0 TCP, 1 RTU
	name  string
	cargs []V // constructor arguments without framing and transaction id
	unit  uint8
	addr  uint16 // start / address
	qty   uint16 // quantity / count
	st    bool
	data  []byte
	req   packet.Request
	tid   int

	rolling bool // req is wrapped in a clntRollingReq
}

func (q *clntRq) val() V {
	a := append([]V{S(q.name), I(q.fr)}, q.cargs...)
	if q.rolling {
		a = append([]V{I(1)}, a...)
	}
	return L(append(a, I(q.tid))...)
}

// clntRoll wraps the request in a user-defined packet.Request whose Bytes() changes on every call
func clntRoll(q *clntRq) *clntRq {
	q.req = &clntRollingReq{Request: q.req}
	q.rolling = true
	return q
}

// clntGenShortWrite: Write returns a short count with a nil error
func clntGenShortWrite(r *rng, f func(c *clntCase)) {
	i := 0
	for kind := 0; kind < 3; kind++ {
		fr := clntFrOf(kind)
		for _, fc := range fcs {
			q := clntMkRq(r, fc, fr, 1+r.intn(2))
			rep := q.reply(r)
			b := rep.bytes
			n := len(q.req.Bytes())
			for _, k := range []int{1, 8, n - 1, 2 + r.intn(n-2)} {
				if k <= 0 || k >= n {
					continue
				}
				for _, steps := range [][]clntStep{clntCut(b), clntCutAs(b, clntClassMixes[i%4], 1+r.intn(len(b)-1)),
					{clntData(b[:1]), clntIOErr(nil)}} {
					i++
					f(&clntCase{kind: kind, conn: true, flusher: i%2 == 0, hooks: i%3 != 0, rq: q,
						sc: clntScript{short: k, steps: steps}, want: rep.want})
				}
			}
		}
	}
}

// clntGenRolling: requests with a non-idempotent Bytes(): normal exchanges, faults after the write,
// a failing write, and calls that fail before Bytes() is needed
func clntGenRolling(r *rng, f func(c *clntCase)) {
	i := 0
	for kind := 0; kind < 3; kind++ {
		fr := clntFrOf(kind)
		for _, fc := range fcs {
			for variant := 0; variant < 2; variant++ {
				mkq := func() *clntRq { return clntRoll(clntMkRq(r, fc, fr, variant)) }
				emit := func(q *clntRq, conn bool, sc clntScript, want V) {
					i++
					f(&clntCase{kind: kind, conn: conn, flusher: i%2 == 0, hooks: true, rq: q, sc: sc, want: want})
				}
				q := mkq()
				rep := q.reply(r)
				b := rep.bytes
				emit(q, true, clntScript{steps: clntCut(b)}, rep.want)
				q = mkq()
				rep = q.reply(r)
				b = rep.bytes
				emit(q, true, clntScript{steps: clntCutAs(b, clntClassMixes[i%4], 1+r.intn(len(b)-1))}, rep.want)
				q = mkq()
				rep = q.reply(r)
				emit(q, true, clntScript{wr: true, steps: clntCut(rep.bytes)}, rep.want)
				q = mkq()
				rep = q.reply(r)
				emit(q, true, clntScript{steps: []clntStep{clntData(rep.bytes[:1]), clntIOErr(nil)}}, rep.want)
				q = mkq()
				rep = q.reply(r)
				emit(q, false, clntScript{steps: clntCut(rep.bytes)}, rep.want)
				if kind != 2 {
					q = mkq()
					rep = q.reply(r)
					emit(q, true, clntScript{swd: true, steps: clntCut(rep.bytes)}, rep.want)
				}
			}
		}
	}
}

// clntStreamPar: batches of independent clients, each with its own scripted transport, that are inside
// Do AT THE SAME TIME: first a round of calls that end in "total read timeout exceeded", then 16
// fragmented successful exchanges with hooks whose reads advance in lock step.  Entries are plain
// "cdo" cases, emitted in generation order: a client must not see another client's bytes.
func clntStreamPar(seed uint64, thorough bool) {
	r := newRng(seed)
	run := &clntRunner{}
	n := 0
	add := func(c *clntCase) {
		clntRotateCtor(c, &n)
		run.add(c)
	}
	batches := 12
	if thorough {
		batches = 120
	}
	const width = 16
	reqFor := func(kind int) (*clntRq, clntReply) {
		fc := []int{3, 4, 1, 16, 3}[r.intn(5)]
		if kind != 0 && fc == 16 {
			fc = 15
		}
		q := clntMkRq(r, fc, clntFrOf(kind), 2)
		return q, q.reply(r)
	}
	for b := 0; b < batches; b++ {
		for j := 0; j < width; j++ {
			kind := (b + j) % 3
			q, rep := reqFor(kind)
			k := r.intn(q.req.ExpectedResponseLength() - 1)
			if k > len(rep.bytes)-1 {
				k = len(rep.bytes) - 1
			}
			steps := []clntStep{clntQuiet(), clntTimer()}
			if k > 0 {
				steps = append([]clntStep{clntData(rep.bytes[:k])}, steps...)
			}
			add(&clntCase{kind: kind, conn: true, flusher: j%2 == 0, hooks: j%3 != 0, rq: q,
				sc: clntScript{steps: steps, timerT: 150 * time.Millisecond}, want: rep.want})
		}
		run.flush()
		gate := clntNewGate(width)
		for j := 0; j < width; j++ {
			kind := (b + j) % 3
			q, rep := reqFor(kind)
			bs := rep.bytes
			// four reads each, never cut at len-1 (D7)
			n := len(bs)
			c1 := 1 + r.intn(n/3)
			c2 := c1 + 1 + r.intn(n/3)
			c3 := c2 + 1 + r.intn(n-2-c2)
			if c3 >= n-1 {
				c3 = n - 2
			}
			if c3 <= c2 {
				c2, c3 = c1+1, c1+2
			}
			add(&clntCase{kind: kind, conn: true, flusher: j%2 == 0, hooks: true, rq: q,
				sc: clntScript{steps: clntCutAs(bs, clntClassMixes[j%4], c1, c2, c3), gate: gate}, want: rep.want})
		}
		run.flush()
	}
}

func clntMust(r packet.Request, err error) packet.Request {
	if err != nil {
		panic(err)
	}
	return r
}

// variant 0..3: the reply sizes {minimal, 2, typical, maximal} (for fixed-size replies: values)
func clntMkRq(r *rng, fc, fr, variant int) *clntRq {
	q := &clntRq{fc: fc, fr: fr, unit: r.u8(), addr: r.edge16()}
	u, a := q.unit, q.addr
	tcp := fr == 0
	switch fc {
	case 1, 2, 3, 4:
		if fc <= 2 {
			q.qty = uint16([]int{1, 9, 1 + r.intn(300), 2000}[variant])
		} else {
			q.qty = uint16([]int{1, 2, 3 + r.intn(40), 125}[variant])
		}
		q.name = "new_read"
		q.cargs = []V{I(fc), I(int(u)), I(int(a)), I(int(q.qty))}
		switch fc*2 + fr {
		case 2:
			q.req = clntMust(packet.NewReadCoilsRequestTCP(u, a, q.qty))
		case 3:
			q.req = clntMust(packet.NewReadCoilsRequestRTU(u, a, q.qty))
		case 4:
			q.req = clntMust(packet.NewReadDiscreteInputsRequestTCP(u, a, q.qty))
		case 5:
			q.req = clntMust(packet.NewReadDiscreteInputsRequestRTU(u, a, q.qty))
		case 6:
			q.req = clntMust(packet.NewReadHoldingRegistersRequestTCP(u, a, q.qty))
		case 7:
			q.req = clntMust(packet.NewReadHoldingRegistersRequestRTU(u, a, q.qty))
		case 8:
			q.req = clntMust(packet.NewReadInputRegistersRequestTCP(u, a, q.qty))
		case 9:
			q.req = clntMust(packet.NewReadInputRegistersRequestRTU(u, a, q.qty))
		}
	case 5:
		q.st = variant%2 == 0
		q.name = "new_wcoil"
		q.cargs = []V{I(int(u)), I(int(a)), Bool(q.st)}
		if tcp {
			q.req = clntMust(packet.NewWriteSingleCoilRequestTCP(u, a, q.st))
		} else {
			q.req = clntMust(packet.NewWriteSingleCoilRequestRTU(u, a, q.st))
		}
	case 6:
		q.data = [][]byte{{0, 0}, {0xff, 0xff}, r.bytes(2), {0x80, 0x01}}[variant]
		q.name = "new_wreg"
		q.cargs = []V{I(int(u)), I(int(a)), B(q.data)}
		if tcp {
			q.req = clntMust(packet.NewWriteSingleRegisterRequestTCP(u, a, q.data))
		} else {
			q.req = clntMust(packet.NewWriteSingleRegisterRequestRTU(u, a, q.data))
		}
	case 15:
		n := []int{1, 9, 1 + r.intn(200), 1968}[variant]
		coils := make([]bool, n)
		cb := make([]byte, n)
		for i := range coils {
			coils[i] = r.bool()
			if coils[i] {
				cb[i] = 1
			}
		}
		q.qty = uint16(n)
		q.name = "new_wcoils"
		q.cargs = []V{I(int(u)), I(int(a)), B(cb)}
		if tcp {
			q.req = clntMust(packet.NewWriteMultipleCoilsRequestTCP(u, a, coils))
		} else {
			q.req = clntMust(packet.NewWriteMultipleCoilsRequestRTU(u, a, coils))
		}
	case 16:
		n := []int{1, 2, 3 + r.intn(40), 123}[variant]
		q.data = r.bytes(2 * n)
		q.qty = uint16(n)
		q.name = "new_wregs"
		q.cargs = []V{I(int(u)), I(int(a)), B(q.data)}
		if tcp {
			q.req = clntMust(packet.NewWriteMultipleRegistersRequestTCP(u, a, q.data))
		} else {
			q.req = clntMust(packet.NewWriteMultipleRegistersRequestRTU(u, a, q.data))
		}
	case 17:
		q.qty = uint16(variant) // selects the reply size
		q.name = "new_srvid"
		q.cargs = []V{I(int(u))}
		if tcp {
			q.req = clntMust(packet.NewReadServerIDRequestTCP(u))
		} else {
			q.req = clntMust(packet.NewReadServerIDRequestRTU(u))
		}
	case 23:
		q.qty = uint16([]int{1, 2, 3 + r.intn(40), 124}[variant])
		ws := r.edge16()
		q.data = r.bytes(2 * (1 + r.intn(4)))
		q.name = "new_rw"
		q.cargs = []V{I(int(u)), I(int(a)), I(int(q.qty)), I(int(ws)), B(q.data)}
		if tcp {
			q.req = clntMust(packet.NewReadWriteMultipleRegistersRequestTCP(u, a, q.qty, ws, q.data))
		} else {
			q.req = clntMust(packet.NewReadWriteMultipleRegistersRequestRTU(u, a, q.qty, ws, q.data))
		}
	default:
		panic("clntMkRq")
	}
	if tcp {
		// the constructors draw the transaction id from math/rand: fix it from the seeded PRNG
		clntSetTID(q.req, r.edge16())
	}
	q.tid, _ = projReq(q.req)
	return q
}

func clntSetTID(req packet.Request, tid uint16) {
	switch p := req.(type) {
	case *packet.ReadCoilsRequestTCP:
		p.TransactionID = tid
	case *packet.ReadDiscreteInputsRequestTCP:
		p.TransactionID = tid
	case *packet.ReadHoldingRegistersRequestTCP:
		p.TransactionID = tid
	case *packet.ReadInputRegistersRequestTCP:
		p.TransactionID = tid
	case *packet.WriteSingleCoilRequestTCP:
		p.TransactionID = tid
	case *packet.WriteSingleRegisterRequestTCP:
		p.TransactionID = tid
	case *packet.WriteMultipleCoilsRequestTCP:
		p.TransactionID = tid
	case *packet.WriteMultipleRegistersRequestTCP:
		p.TransactionID = tid
	case *packet.ReadServerIDRequestTCP:
		p.TransactionID = tid
	case *packet.ReadWriteMultipleRegistersRequestTCP:
		p.TransactionID = tid
	default:
		panic("clntSetTID: not a TCP request")
	}
}

// ---------- replies (built here from the protocol description, not with the library's encoders) ----------

func clntADU(fr, tid int, unit uint8, pdu []byte) []byte {
	if fr == 0 {
		b := make([]byte, 7, 7+len(pdu))
		binary.BigEndian.PutUint16(b[0:2], uint16(tid))
		binary.BigEndian.PutUint16(b[4:6], uint16(1+len(pdu)))
		b[6] = unit
		return append(b, pdu...)
	}
	b := append([]byte{unit}, pdu...)
	crc := packet.CRC16(b)
	return append(b, byte(crc), byte(crc>>8))
}

type clntReply struct {
	want  V
	bytes []byte
}

func clntPut16(v uint16) []byte { return []byte{byte(v >> 8), byte(v)} }

// reply builds a well-formed normal reply to the request
func (q *clntRq) reply(r *rng) clntReply {
	u := int(q.unit)
	var pdu []byte
	var pv V
	switch q.fc {
	case 1, 2:
		d := r.bytes((int(q.qty) + 7) / 8)
		pdu = append([]byte{byte(q.fc), byte(len(d))}, d...)
		pv = L(I(q.fc), I(u), I(len(d)), B(d))
	case 3, 4, 23:
		d := r.bytes(2 * int(q.qty))
		pdu = append([]byte{byte(q.fc), byte(len(d))}, d...)
		pv = L(I(q.fc), I(u), I(len(d)), B(d))
	case 5:
		v := []byte{0, 0}
		if q.st {
			v = []byte{0xff, 0}
		}
		pdu = append(append([]byte{5}, clntPut16(q.addr)...), v...)
		pv = L(I(5), I(u), I(int(q.addr)), Bool(q.st))
	case 6:
		pdu = append(append([]byte{6}, clntPut16(q.addr)...), q.data...)
		pv = L(I(6), I(u), I(int(q.addr)), B(q.data))
	case 15, 16:
		pdu = append(append([]byte{byte(q.fc)}, clntPut16(q.addr)...), clntPut16(q.qty)...)
		pv = L(I(q.fc), I(u), I(int(q.addr)), I(int(q.qty)))
	case 17:
		id := r.bytes([]int{1, 2, 3 + r.intn(20), 240}[q.qty])
		add := r.bytes([]int{0, 0, r.intn(6), 5}[q.qty])
		st := r.u8()
		pdu = append([]byte{17, byte(len(id))}, id...)
		pdu = append(append(pdu, st), add...)
		pv = L(I(17), I(u), I(int(st)), B(id), B(add))
	}
	return clntReply{L(I(0), pv), clntADU(q.fr, q.tid, q.unit, pdu)}
}

// replyData: a byte-counted reply (FC1-4, FC23) carrying the given payload
func (q *clntRq) replyData(d []byte) clntReply {
	pdu := append([]byte{byte(q.fc), byte(len(d))}, d...)
	return clntReply{L(I(0), L(I(q.fc), I(int(q.unit)), I(len(d)), B(d))), clntADU(q.fr, q.tid, q.unit, pdu)}
}

func (q *clntRq) exception(code uint8) clntReply {
	return clntReply{L(I(1), I(int(q.unit)), I(q.fc), I(int(code))),
		clntADU(q.fr, q.tid, q.unit, []byte{byte(q.fc) | 0x80, code})}
}

// ---------- script helpers ----------

// clntCut cuts b at the given ascending positions into data reads
func clntCut(b []byte, at ...int) []clntStep {
	var s []clntStep
	prev := 0
	for _, c := range at {
		s = append(s, clntData(b[prev:c]))
		prev = c
	}
	return append(s, clntData(b[prev:]))
}

// clntCutAs: like clntCut; chunk i is returned with a nil error (0) or together with the read
// deadline error (1) as cls[i%len(cls)] says; 2 for the last chunk: together with io.EOF
func clntCutAs(b []byte, cls []int, at ...int) []clntStep {
	s := clntCut(b, at...)
	for i := range s {
		switch cls[i%len(cls)] {
		case 1:
			s[i].rd = clntRdTimeout
		case 2:
			if i == len(s)-1 {
				s[i].rd = clntRdEOF
			}
		}
	}
	return s
}

var clntClassMixes = [][]int{{0, 0}, {1, 0}, {0, 1}, {1, 1}, {0, 2}, {1, 2}}

func clntTail() []clntStep { return []clntStep{clntQuiet(), clntTimer()} }

func clntFrOf(kind int) int {
	if kind == 0 {
		return 0
	}
	return 1
}

// ---------- C07 ----------

func clntGenC07(r *rng, thorough bool, f func(c *clntCase)) {
	i := 0
	mk := func(kind int, q *clntRq, rep clntReply, steps []clntStep) {
		i++
		f(&clntCase{kind: kind, conn: true, flusher: i%3 == 0, hooks: i%2 == 0, rq: q,
			sc: clntScript{steps: steps}, want: rep.want})
	}
	nrand := 8
	if thorough {
		nrand = 120
	}
	randomCuts := func(kind int, q *clntRq, rep clntReply, withEOF bool) {
		b := rep.bytes
		var steps []clntStep
		for k := r.intn(3); k > 0; k-- {
			steps = append(steps, clntQuiet())
		}
		pos := 0
		for pos < len(b) {
			n := 1 + r.intn(len(b)-pos)
			if r.intn(3) == 0 {
				n = 1 + r.intn(4)
				if n > len(b)-pos {
					n = len(b) - pos
				}
			}
			st := clntData(b[pos : pos+n])
			if r.intn(3) == 0 {
				st = clntLate(b[pos : pos+n]) // the bytes arrive together with the deadline error
			} else if pos+n == len(b) && r.intn(4) == 0 {
				st = clntEOF(b[pos : pos+n]) // the stream ends with the reply
			}
			steps = append(steps, st)
			pos += n
			for r.intn(3) == 0 {
				steps = append(steps, clntQuiet())
			}
			if r.intn(8) == 0 {
				steps = append(steps, clntData(nil)) // a read of 0 bytes without error
			}
		}
		mk(kind, q, rep, steps)
	}
	shapes := func(kind int, q *clntRq, rep clntReply, small, isExc bool) {
		b := rep.bytes
		n := len(b)
		mk(kind, q, rep, clntCut(b))
		mk(kind, q, rep, append(clntCut(b), clntTail()...))
		mk(kind, q, rep, clntCutAs(b, []int{1}))
		mk(kind, q, rep, clntCutAs(b, []int{2}))
		for c := 1; c < n; c++ {
			mix := clntClassMixes[c%len(clntClassMixes)]
			mk(kind, q, rep, clntCutAs(b, mix, c))
			if c%5 == 0 || isExc {
				// the same cut with empty timed-out reads in between
				st := clntCutAs(b, mix, c)
				mk(kind, q, rep, []clntStep{clntQuiet(), st[0], clntQuiet(), clntQuiet(), st[1]})
				mk(kind, q, rep, []clntStep{st[0], clntQuiet(), st[1]})
			}
			if isExc {
				for _, m := range clntClassMixes {
					mk(kind, q, rep, clntCutAs(b, m, c))
				}
			}
		}
		if small || thorough && n <= 40 {
			k := 0
			for c1 := 1; c1 < n; c1++ {
				for c2 := c1 + 1; c2 < n; c2++ {
					k++
					mk(kind, q, rep, clntCutAs(b, [][]int{{0}, {0, 1}, {1, 0, 0}, {1}, {0, 0, 2}}[k%5], c1, c2))
					if isExc {
						st := clntCut(b, c1, c2)
						mk(kind, q, rep, []clntStep{st[0], clntQuiet(), st[1], clntQuiet(), st[2]})
					}
				}
			}
		}
		for k := 0; k < nrand; k++ {
			randomCuts(kind, q, rep, false)
		}
	}
	for kind := 0; kind < 3; kind++ {
		fr := clntFrOf(kind)
		for _, fc := range fcs {
			for variant := 0; variant < 4; variant++ {
				q := clntMkRq(r, fc, fr, variant)
				rep := q.reply(r)
				shapes(kind, q, rep, len(rep.bytes) <= 14, false)
			}
			// exception replies
			for _, code := range []uint8{1, 2, 3, 4, 6, 11} {
				q := clntMkRq(r, fc, fr, r.intn(4))
				shapes(kind, q, q.exception(code), true, true)
			}
		}
	}
	// normal replies whose payload holds what a recogniser looking at a single chunk (instead of
	// at everything received so far) would take for an exception frame
	for kind := 0; kind < 3; kind++ {
		fr := clntFrOf(kind)
		for _, fc := range []int{1, 2, 3, 4, 23} {
			for _, variant := range []int{2, 2, 3} {
				q := clntMkRq(r, fc, fr, variant)
				nd := 2 * int(q.qty)
				if fc <= 2 {
					nd = (int(q.qty) + 7) / 8
				}
				e := q.exception(uint8(1 + r.intn(4))).bytes
				if nd < len(e) {
					continue
				}
				d := r.bytes(nd)
				off := r.intn(nd - len(e) + 1)
				if variant == 3 {
					off = []int{0, nd - len(e)}[r.intn(2)]
				}
				copy(d[off:], e) // a complete, valid exception frame inside the data
				rep := q.replyData(d)
				b := rep.bytes
				p := len(b) - 2*fr - nd + off // where it starts in the frame
				for _, m := range clntClassMixes[:4] {
					mk(kind, q, rep, clntCutAs(b, m, p, p+len(e)))
					mk(kind, q, rep, clntCutAs(b, m, p))
					mk(kind, q, rep, clntCutAs(b, m, p+len(e)))
				}
				st := clntCut(b, p, p+len(e))
				mk(kind, q, rep, []clntStep{st[0], clntQuiet(), st[1], clntQuiet(), st[2]})
				// 0x83 0x02 all over the payload
				for i := range d {
					d[i] = []byte{0x83, 0x02}[i%2]
				}
				rep = q.replyData(d)
				b = rep.bytes
				for _, c := range []int{5, 9, len(b) - 5, len(b) - 9} {
					if c > 0 && c < len(b) {
						mk(kind, q, rep, clntCutAs(b, clntClassMixes[c%4], c))
					}
				}
			}
		}
	}
	// maximum-size replies (TCP 259 / 260, RTU 255 / 256, ...) whole and fragmented, with EVERY
	// public constructor that yields the client kind
	for kind := 0; kind < 3; kind++ {
		for ctor := 0; ctor < clntCtors[kind]; ctor++ {
			for _, m := range clntMaxReplies(r, clntFrOf(kind)) {
				b := m.rep.bytes
				n := len(b)
				scripts := [][]clntStep{clntCutAs(b, []int{0}), clntCutAs(b, []int{1}), clntCutAs(b, []int{2})}
				for _, c := range []int{1, 7, 8, 9, n / 2, n - 9, n - 3, n - 2, n - 1, 1 + r.intn(n-1)} {
					if c > 0 && c < n {
						scripts = append(scripts, clntCutAs(b, clntClassMixes[(c+ctor)%len(clntClassMixes)], c))
					}
				}
				if n > 200 {
					scripts = append(scripts, clntCutAs(b, []int{0, 1, 0, 0}, 100, 200, 250))
				}
				for _, sc := range scripts {
					i++
					f(&clntCase{kind: kind, conn: true, flusher: i%3 == 0, hooks: i%2 == 0, rq: m.q,
						sc: clntScript{steps: sc}, want: m.rep.want, ctor: ctor, ctorSet: true})
				}
			}
		}
	}
	// NewTCPClient() / NewRTUClient(): no configuration, a real loopback connection.  Request types
	// with an exact ExpectedResponseLength (the result does not depend on how the kernel segments the
	// stream), exception replies, and maximum-size replies written in one piece
	for kind := 0; kind < 2; kind++ {
		fr := clntFrOf(kind)
		types := []int{1, 2, 3, 4, 6, 15, 16}
		if kind == 1 {
			types = []int{15, 16}
		}
		blind := func(q *clntRq, rep clntReply, steps []clntStep) {
			f(&clntCase{kind: kind, conn: true, rq: q, sc: clntScript{steps: steps}, want: rep.want, ctor: 4, ctorSet: true})
		}
		for _, fc := range types {
			for variant := 0; variant < 4; variant++ {
				q := clntMkRq(r, fc, fr, variant)
				rep := q.reply(r)
				b := rep.bytes
				blind(q, rep, clntCut(b))
				for k := 0; k < 3; k++ {
					c := 1 + r.intn(len(b)-1)
					blind(q, rep, []clntStep{clntData(b[:c]), clntQuiet(), clntData(b[c:])})
				}
				if len(b) > 20 {
					blind(q, rep, clntCut(b, 5, 12))
				}
			}
			q := clntMkRq(r, fc, fr, 1)
			ex := q.exception(uint8(1 + r.intn(4)))
			blind(q, ex, clntCut(ex.bytes))
			blind(q, ex, clntCut(ex.bytes, 1+r.intn(len(ex.bytes)-1)))
		}
		for _, m := range clntMaxReplies(r, fr) {
			if m.q.fc != 23 { // written in one piece: arrives in one read
				blind(m.q, m.rep, clntCut(m.rep.bytes))
			}
		}
	}
	// long runs of empty timed-out reads (14..20 in a row) before the reply and between its fragments:
	// with the short read timeout of the timer scripts (the tail is never reached) and with the
	// generous one
	for kind := 0; kind < 3; kind++ {
		fr := clntFrOf(kind)
		quiets := func(n int) []clntStep {
			var s []clntStep
			for ; n > 0; n-- {
				s = append(s, clntQuiet())
			}
			return s
		}
		for _, fc := range fcs {
			for variant := 0; variant < 2; variant++ {
				q := clntMkRq(r, fc, fr, variant+1)
				rep := q.reply(r)
				b := rep.bytes
				c := 1 + r.intn(len(b)-1)
				before := append(quiets(14+r.intn(7)), clntCutAs(b, clntClassMixes[r.intn(4)], c)...)
				st := clntCutAs(b, clntClassMixes[r.intn(4)], c)
				between := append(append([]clntStep{st[0]}, quiets(14+r.intn(7))...), st[1])
				both := append(append(quiets(16), st[0]), append(quiets(20), st[1])...)
				for _, steps := range [][]clntStep{before, between, both} {
					i++
					f(&clntCase{kind: kind, conn: true, flusher: i%3 == 0, hooks: i%2 == 0, rq: q,
						sc: clntScript{steps: append(append([]clntStep(nil), steps...), clntTail()...)}, want: rep.want})
					i++
					f(&clntCase{kind: kind, conn: true, flusher: i%3 == 0, hooks: i%2 == 0, rq: q,
						sc: clntScript{steps: steps}, want: rep.want})
				}
			}
		}
	}
	// a transport whose Write takes only k bytes per call (k = 1, 8, len-1) and reports the short count
	// without an error
	clntGenShortWrite(r, f)
	// device-exception replies with EVERY code, for every request type and client, whole and cut at
	// every position: the typed exception with exactly that code (5 "acknowledge" is not special)
	for kind := 0; kind < 3; kind++ {
		fr := clntFrOf(kind)
		for _, fc := range fcs {
			codes := []uint8{0, 1, 2, 3, 4, 5, 6, 7, 8, 10, 11, 12, 0x80, 0xff, r.u8(), r.u8()}
			for j, code := range codes {
				q := clntMkRq(r, fc, fr, r.intn(4))
				ex := q.exception(code)
				b := ex.bytes
				mk(kind, q, ex, clntCutAs(b, []int{j % 3}))
				for c := 1; c < len(b); c++ {
					mk(kind, q, ex, clntCutAs(b, clntClassMixes[(c+j)%4], c))
				}
				mk(kind, q, ex, append(clntCut(b, 1+r.intn(len(b)-1)), clntTail()...))
			}
		}
	}
	// the serial client built with a read timeout (20 ms) shorter than its 30 ms settle sleep, the
	// complete reply being available at once
	for _, fc := range fcs {
		for variant := 0; variant < 4; variant++ {
			q := clntMkRq(r, fc, 1, variant)
			rep := q.reply(r)
			ex := q.exception(uint8(1 + r.intn(6)))
			for _, x := range []struct {
				rep   clntReply
				steps []clntStep
			}{
				{rep, clntCut(rep.bytes)},
				{rep, clntCutAs(rep.bytes, clntClassMixes[variant], 1+r.intn(len(rep.bytes)-1))},
				{ex, clntCut(ex.bytes)},
				{ex, clntCut(ex.bytes, 1+r.intn(4))},
			} {
				i++
				f(&clntCase{kind: 2, conn: true, flusher: i%3 == 0, hooks: i%2 == 0, rq: q,
					sc: clntScript{steps: x.steps}, want: x.rep.want, ctor: 3, ctorSet: true})
			}
		}
	}
	// a reply followed by a real stall: the total timer must not be needed
	for kind := 0; kind < 3; kind++ {
		for _, fc := range fcs {
			q := clntMkRq(r, fc, clntFrOf(kind), 2)
			rep := q.reply(r)
			b := rep.bytes
			c := 1 + r.intn(len(b)-1)
			mk(kind, q, rep, append(clntCut(b, c), clntTail()...))
		}
	}
}

// ---------- C08 ----------

// clntGenTrickle: a device that delivers one byte per read with a real gap shorter than the read
// timeout and never completes the frame in time: the TOTAL read timeout must end the call (the
// script's timer step), and it must do so within 3 x the timeout.  After the timer step the script
// goes on trickling, for a client that would (wrongly) keep reading.
func clntGenTrickle(r *rng, f func(c *clntCase)) {
	const gap = 20 * time.Millisecond
	i := 0
	for kind := 0; kind < 3; kind++ {
		for _, fc := range []int{3, 4, 1, 23} {
			for rep2 := 0; rep2 < 2; rep2++ {
				q := clntMkRq(r, fc, clntFrOf(kind), 3) // a reply of 250+ bytes
				rep := q.reply(r)
				b := rep.bytes
				var steps []clntStep
				for j, x := range b[:60] { // far from the complete reply
					st := clntData([]byte{x})
					st.gap = gap
					if j == 5 {
						st.timer = true // by now the total timer has fired (the read before blocks past it)
					}
					steps = append(steps, st)
				}
				i++
				f(&clntCase{kind: kind, conn: true, flusher: i%2 == 0, hooks: i%2 == 0, rq: q,
					sc: clntScript{steps: steps, maxElapsed: 3 * clntTimerT}, want: rep.want})
			}
		}
	}
}

func clntGenC08(r *rng, thorough bool, f func(c *clntCase)) {
	clntGenTrickle(r, f)
	clntGenOversize(r, f)
	clntGenExtended(r, []int{0, 1, 2}, f)
	i := 0
	mk := func(kind int, q *clntRq, rep clntReply, sc clntScript) {
		i++
		f(&clntCase{kind: kind, conn: true, flusher: i%2 == 0, hooks: i%2 == 0, rq: q, sc: sc, want: rep.want})
	}
	junk := func(n int) []byte { return r.bytes(n) }
	faults := func(kind int, q *clntRq, rep clntReply, k int) {
		b := rep.bytes
		p := b[:k]
		pre := func() []clntStep {
			if k == 0 {
				return nil
			}
			if k > 3 && r.intn(3) == 0 {
				c := 1 + r.intn(k-1)
				st := clntCutAs(p, clntClassMixes[r.intn(4)], c)
				return []clntStep{st[0], clntQuiet(), st[1]}
			}
			if r.intn(3) == 0 {
				return []clntStep{clntLate(p)}
			}
			return []clntStep{clntData(p)}
		}
		fl := r.intn(3) == 0 // the serial port's Flush fails as well
		maxLen := 260
		if kind == 2 {
			maxLen = 256
		}
		// stall until the total timer fires
		mk(kind, q, rep, clntScript{steps: append(pre(), clntQuiet(), clntQuiet(), clntTimer())})
		// stream closed: EOF without and with the last bytes
		mk(kind, q, rep, clntScript{fl: fl, steps: append(append(pre(), clntEOF(nil)), clntTail()...)})
		if k > 0 {
			c := r.intn(k)
			st := []clntStep{clntEOF(p)}
			if c > 0 {
				st = []clntStep{clntData(p[:c]), clntEOF(p[c:])}
			}
			mk(kind, q, rep, clntScript{fl: fl, steps: append(st, clntTail()...)})
		}
		// I/O error, without and with bytes
		mk(kind, q, rep, clntScript{fl: fl, steps: append(pre(), clntIOErr(nil))})
		// a hard failure whose error says Timeout() == true but is not the read deadline (ETIMEDOUT)
		mk(kind, q, rep, clntScript{steps: append(pre(), clntStep{rd: clntRdIOErrTimeout})})
		mk(kind, q, rep, clntScript{steps: append(pre(), clntQuiet(), clntIOErr(junk(1+r.intn(3))))})
		// more bytes than a frame can hold: far too many, and one too many
		mk(kind, q, rep, clntScript{fl: fl, steps: append(pre(), clntData(junk(300)))})
		mk(kind, q, rep, clntScript{steps: append(pre(), clntData(junk(maxLen+1-k)))})
		if kind == 1 && k < 200 {
			// the RTU network client shares the limit of 260 with the TCP client: 257..260 bytes
			// are not "too long" for it (correspondence only; the verdict does not judge these)
			mk(kind, q, rep, clntScript{steps: append(pre(), clntData(junk(257+r.intn(4)-k)))})
		}
		// the caller cancels
		mk(kind, q, rep, clntScript{steps: append(pre(), clntCtx())})
		mk(kind, q, rep, clntScript{steps: append(pre(), clntQuiet(), clntQuiet(), clntCtx())})
		// the caller's OWN deadline (far shorter than the read timeout) expires while the transport
		// stalls: the context's error, not the client's timeout
		mk(kind, q, rep, clntScript{steps: append(pre(), clntQuiet(), clntCtxDeadline())})
		if k == 0 {
			mk(kind, q, rep, clntScript{steps: []clntStep{clntCtxDeadline()}}) // expired before the call
		} else if r.intn(2) == 0 {
			mk(kind, q, rep, clntScript{steps: append(pre(), clntCtxDeadline())})
		}
	}
	for kind := 0; kind < 3; kind++ {
		fr := clntFrOf(kind)
		for _, fc := range fcs {
			for _, variant := range []int{0, 2, 3} {
				q := clntMkRq(r, fc, fr, variant)
				rep := q.reply(r)
				n := len(rep.bytes)
				e := q.req.ExpectedResponseLength()
				if n <= 40 || thorough {
					for k := 0; k < n; k++ {
						faults(kind, q, rep, k)
					}
				} else {
					for _, k := range []int{0, 1, 7, 8, 9, e - 1, e, n - 2, n - 1, r.intn(n), r.intn(n)} {
						if k >= 0 && k < n {
							faults(kind, q, rep, k)
						}
					}
				}
			}
			// prefixes of an exception reply
			q := clntMkRq(r, fc, fr, 1)
			rep := q.exception(uint8(1 + r.intn(4)))
			for k := 0; k < len(rep.bytes); k++ {
				faults(kind, q, rep, k)
			}
			// faults before the first read
			q = clntMkRq(r, fc, fr, 2)
			rep = q.reply(r)
			whole := []clntStep{clntData(rep.bytes)}
			mk(kind, q, rep, clntScript{wr: true, steps: whole})
			mk(kind, q, rep, clntScript{wr: true, fl: true, steps: whole})
			mk(kind, q, rep, clntScript{swd: true, steps: whole})
			mk(kind, q, rep, clntScript{swd: true, wr: true, steps: whole})
			mk(kind, q, rep, clntScript{steps: append([]clntStep{clntCtx()}, whole...)})
			// the context is already done (cancelled / its deadline passed) when the call is made, and the
			// transport would deliver the complete reply in the very first read: never a success
			for _, ctxKind := range []int{1, 2} {
				mk(kind, q, rep, clntScript{steps: []clntStep{{ctx: ctxKind, rd: clntRdData, data: rep.bytes}}})
				mk(kind, q, rep, clntScript{steps: []clntStep{{ctx: ctxKind, rd: clntRdEOF, data: rep.bytes}, clntQuiet()}})
				// ... or it is done after a first part, and the rest would arrive in the next read
				c := 1 + r.intn(len(rep.bytes)-1)
				if c > q.req.ExpectedResponseLength()-1 {
					c = q.req.ExpectedResponseLength() - 1
				}
				mk(kind, q, rep, clntScript{steps: []clntStep{clntData(rep.bytes[:c]),
					{ctx: ctxKind, rd: clntRdData, data: rep.bytes[c:]}}})
			}
			i++
			f(&clntCase{kind: kind, conn: false, flusher: i%2 == 0, hooks: true, rq: q, sc: clntScript{steps: whole}, want: rep.want})
			f(&clntCase{kind: kind, conn: false, hooks: false, rq: q, sc: clntScript{steps: whole}, want: rep.want})
		}
		for _, conn := range []bool{true, false} {
			for _, hooks := range []bool{true, false} {
				f(&clntCase{kind: kind, conn: conn, flusher: hooks, hooks: hooks, rq: nil,
					sc: clntScript{steps: []clntStep{clntData([]byte{1, 2, 3})}}})
			}
		}
	}
}

// clntGenOversize: streams of every size 255..272 that start like the largest replies, in various
// chunkings, for the three clients (limit 260 for the network clients, 256 for the serial one)
func clntGenOversize(r *rng, f func(c *clntCase)) {
	i := 0
	for kind := 0; kind < 3; kind++ {
		fr := clntFrOf(kind)
		for _, fc := range []int{3, 1} {
			q := clntMkRq(r, fc, fr, 3)
			rep := q.reply(r)
			e := q.req.ExpectedResponseLength()
			for size := 255; size <= 272; size++ {
				b := append([]byte(nil), rep.bytes...)
				if size <= len(b) {
					b = b[:size]
				} else {
					b = append(b, r.bytes(size-len(b))...)
				}
				var scripts [][]clntStep
				for _, m := range [][]int{{0}, {1}, {2}} {
					scripts = append(scripts, clntCutAs(b, m))
				}
				for _, c := range []int{1, 100, 250, e - 1, e, 254, 1 + r.intn(250)} {
					if c > 0 && c < size {
						scripts = append(scripts, clntCutAs(b, clntClassMixes[(c+size)%len(clntClassMixes)], c))
					}
				}
				scripts = append(scripts, clntCutAs(b, []int{0, 1, 0}, 100, 200))
				scripts = append(scripts, clntCutAs(b, []int{1, 0, 2}, 7, 249))
				one := clntCut(b, 250) // the rest byte by byte
				st := []clntStep{one[0]}
				for _, x := range one[1].data {
					st = append(st, clntData([]byte{x}))
				}
				scripts = append(scripts, st)
				for _, sc := range scripts {
					i++
					f(&clntCase{kind: kind, conn: true, flusher: i%2 == 0, hooks: i%2 == 0, rq: q,
						sc: clntScript{fl: i%8 == 0, steps: append(sc, clntTail()...)}, want: rep.want})
				}
			}
		}
	}
}

// clntMaxReplies: every reply shape at its maximum legal size for the framing
// (RTU: FC1-4 255, FC17 256, FC23 253, the fixed ones 8; TCP: FC1-4 259, FC17 260, FC23 257, fixed 12)
func clntMaxReplies(r *rng, fr int) []struct {
	q   *clntRq
	rep clntReply
} {
	var out []struct {
		q   *clntRq
		rep clntReply
	}
	for _, fc := range fcs {
		q := clntMkRq(r, fc, fr, 3)
		rep := q.reply(r)
		if fc == 17 {
			// server id + run indicator + additional data fill the frame: 256 / 260 bytes
			id := r.bytes(1 + r.intn(3))
			add := r.bytes(250 - len(id))
			st := r.u8()
			pdu := append([]byte{17, byte(len(id))}, id...)
			pdu = append(append(pdu, st), add...)
			rep = clntReply{L(I(0), L(I(17), I(int(q.unit)), I(int(st)), B(id), B(add))), clntADU(fr, q.tid, q.unit, pdu)}
		}
		out = append(out, struct {
			q   *clntRq
			rep clntReply
		}{q, rep})
	}
	return out
}

// clntGenExtended: a valid maximum-size reply followed by 1..10 trailing bytes, which arrive in the
// same read, in a following read, or byte by byte
func clntGenExtended(r *rng, kinds []int, f func(c *clntCase)) {
	i := 0
	for _, kind := range kinds {
		for _, m := range clntMaxReplies(r, clntFrOf(kind)) {
			b := m.rep.bytes
			for n := 1; n <= 10; n++ {
				ext := r.bytes(n)
				all := append(append([]byte(nil), b...), ext...)
				var scripts [][]clntStep
				scripts = append(scripts, clntCutAs(all, []int{n % 2}))              // together
				scripts = append(scripts, clntCutAs(all, []int{0, n % 2}, len(b)/2)) // together, after a first part
				scripts = append(scripts, clntCutAs(all, []int{0, 1}, len(b)-1))     // all but one byte, then the rest + extension
				scripts = append(scripts, clntCutAs(all, []int{n % 2, 0}, len(b)))   // in a following read
				st := []clntStep{clntData(b)}
				for _, x := range ext {
					st = append(st, clntData([]byte{x})) // byte by byte
				}
				scripts = append(scripts, st)
				for _, sc := range scripts {
					i++
					f(&clntCase{kind: kind, conn: true, flusher: i%3 == 0, hooks: i%2 == 0, rq: m.q,
						sc: clntScript{fl: i%9 == 0, steps: append(sc, clntTail()...)}, want: m.rep.want})
				}
			}
		}
	}
}

// ---------- sequences ----------

// clntGenSeq: 2..5 calls on one client object
func clntGenSeq(r *rng, thorough bool, f func(c *clntCase)) {
	i := 0
	for kind := 0; kind < 3; kind++ {
		fr := clntFrOf(kind)
		normal := func() clntOp {
			fc := []int{3, 16, 6, 1, 15}[r.intn(5)]
			if kind != 0 && (fc == 3 || fc == 6 || fc == 1) {
				fc = []int{15, 16}[r.intn(2)]
			}
			if r.intn(4) == 0 {
				fc = fcs[r.intn(len(fcs))]
			}
			q := clntMkRq(r, fc, fr, r.intn(3))
			rep := q.reply(r)
			b := rep.bytes
			c := 1 + r.intn(len(b)-1)
			return clntOp{what: 2, rq: q, sc: clntScript{steps: clntCutAs(b, clntClassMixes[r.intn(4)], c)}, want: rep.want}
		}
		fault := func(which int) clntOp {
			q := clntMkRq(r, []int{3, 16, 4, 15}[r.intn(4)], fr, 2)
			rep := q.reply(r)
			b := rep.bytes
			e := q.req.ExpectedResponseLength()
			k := r.intn(e - 1) // a prefix below the threshold
			if k > len(b)-1 {
				k = len(b) - 1
			}
			var pre []clntStep
			if k > 0 {
				pre = []clntStep{clntData(b[:k])}
			}
			sc := clntScript{}
			switch which {
			case 0: // stall until the total timer
				sc.steps = append(pre, clntQuiet(), clntTimer())
			case 1:
				sc.steps = append(pre, clntIOErr(r.bytes(r.intn(3))))
			case 2:
				sc.wr = true
				sc.steps = []clntStep{clntData(b)}
			case 3:
				sc.steps = append(pre, clntData(r.bytes(300)))
			case 4:
				sc.steps = append(pre, clntQuiet(), clntCtx())
			case 5:
				sc.steps = append(pre, clntQuiet(), clntCtxDeadline())
			case 6:
				sc.swd = true
				sc.steps = []clntStep{clntData(b)}
			case 7:
				sc.steps = append(append(pre, clntEOF(nil)), clntTail()...)
			default: // nil request
				return clntOp{what: 2, rq: nil, sc: clntScript{steps: []clntStep{clntData(b)}}}
			}
			return clntOp{what: 2, rq: q, sc: sc, want: rep.want}
		}
		connect, dialFails, closeOp := clntOp{what: 0}, clntOp{what: 0, fail: 1}, clntOp{what: 1}
		dialTypedNil := clntOp{what: 0, fail: 2} // the dialer returns a typed nil pointer with its error
		emit := func(port bool, ops ...clntOp) {
			i++
			f(&clntCase{kind: kind, conn: port, flusher: i%2 == 0, hooks: i%3 != 0, ops: ops})
		}
		const nFaults = 9
		if kind != 2 {
			// not connected first: the later calls must still work
			emit(false, normal(), normal())
			emit(false, normal(), connect, normal())
			emit(false, fault(8), normal(), connect, normal())
			emit(false, normal(), closeOp, connect, normal(), closeOp)
			emit(false, dialFails, normal(), connect, normal())
			// after a failed dial the client is still not connected, whatever the dialer returned with
			// the error: Do fails at once, Close and Connect work
			emit(false, dialTypedNil, normal())
			emit(false, dialTypedNil, normal(), normal(), connect, normal())
			emit(false, dialTypedNil, closeOp, normal())
			emit(false, dialTypedNil, closeOp, connect, normal(), closeOp)
			emit(false, dialTypedNil, dialTypedNil, fault(8), normal())
			emit(false, dialFails, dialTypedNil, connect, normal())
			for w := 0; w < 3; w++ {
				// ... and a failed re-dial leaves the working connection in place
				emit(false, connect, normal(), dialTypedNil, normal(), fault(w), closeOp)
				emit(false, connect, closeOp, dialTypedNil, normal(), connect, normal())
			}
			emit(false, closeOp, normal(), connect, normal())
			for w := 0; w < nFaults; w++ {
				emit(false, connect, fault(w), normal())
				emit(false, connect, normal(), fault(w), normal(), closeOp)
				emit(false, normal(), connect, fault(w), fault((w+3)%nFaults), normal())
				emit(false, connect, fault(w), closeOp, normal(), connect)
			}
			emit(false, connect, normal(), closeOp, normal(), connect, normal())
			emit(false, connect, closeOp, closeOp, normal())
			emit(false, connect, connect, normal(), closeOp)
		} else {
			emit(false, normal(), normal())
			emit(false, normal(), closeOp, normal())
			emit(false, fault(8), normal(), closeOp)
			for w := 0; w < nFaults; w++ {
				emit(true, fault(w), normal())
				emit(true, normal(), fault(w), normal(), closeOp)
				emit(true, fault(w), fault((w+3)%nFaults), normal())
				emit(true, fault(w), closeOp, normal())
			}
			emit(true, normal(), closeOp, normal(), normal())
			emit(true, closeOp, closeOp, normal())
		}
		// a call whose single read blocks LONGER than the read timeout and then delivers the whole reply
		// succeeds; the next call on the same client must not inherit the expired timer
		slow := func() clntOp {
			o := normal()
			q := o.rq
			rep := q.reply(r)
			o.want = rep.want
			o.sc = clntScript{steps: []clntStep{clntData(rep.bytes), clntTimer()}}
			return o
		}
		for j := 0; j < 6; j++ {
			if kind != 2 {
				emit(false, connect, slow(), normal())
				emit(false, connect, slow(), slow(), normal(), closeOp)
			} else {
				emit(true, slow(), normal())
				emit(true, slow(), slow(), normal())
			}
		}
		// a good read response, then calls that FAIL after receiving bytes (bad CRC / wrong length,
		// truncated then timeout or end of stream, I/O error), then a good one: what the first call
		// returned must not change
		for j := 0; j < 30; j++ {
			var ops []clntOp
			if kind != 2 {
				ops = append(ops, connect)
			}
			fc := 1 + r.intn(4)
			variant := r.intn(4)
			good := func() clntOp {
				q := clntMkRq(r, fc, fr, variant)
				rep := q.reply(r)
				return clntOp{what: 2, rq: q, sc: clntScript{steps: clntCutAs(rep.bytes, []int{r.intn(2)})}, want: rep.want}
			}
			bad := func() clntOp {
				q := clntMkRq(r, fc, fr, variant)
				rep := q.reply(r)
				b := append([]byte(nil), rep.bytes...)
				var steps []clntStep
				switch r.intn(4) {
				case 0: // corrupted payload: bad CRC (RTU) / same bytes with a wrong byte count (TCP)
					b[len(b)/2+1] ^= 0x55
					if kind == 0 {
						b[8]++
					}
					steps = clntCut(b)
				case 1: // truncated, then the total timer
					steps = []clntStep{clntData(b[:len(b)-3]), clntQuiet(), clntTimer()}
					if q.req.ExpectedResponseLength() <= len(b)-3 {
						steps = []clntStep{clntData(b[:2]), clntQuiet(), clntTimer()}
					}
				case 2: // truncated, then the stream ends
					steps = append([]clntStep{clntData(b[:len(b)-3]), clntEOF(nil)}, clntTail()...)
				default:
					steps = []clntStep{clntData(b[:len(b)/2]), clntIOErr(b[len(b)/2 : len(b)/2+2])}
				}
				return clntOp{what: 2, rq: q, sc: clntScript{steps: steps}}
			}
			ops = append(ops, good(), bad())
			if r.intn(2) == 0 {
				ops = append(ops, bad())
			}
			if r.intn(2) == 0 {
				ops = append(ops, good())
			}
			emit(true, ops...)
		}
		// 2..4 successful read exchanges with DIFFERENT payloads on one client: what the first call
		// returned must still be what it returned after the later calls
		reads := 40
		if thorough {
			reads = 400
		}
		for j := 0; j < reads; j++ {
			var ops []clntOp
			if kind != 2 {
				ops = append(ops, connect)
			}
			fc := 1 + r.intn(4)
			variant := r.intn(4)
			for l := 2 + r.intn(3); l > 0; l-- {
				if r.intn(3) == 0 {
					fc, variant = 1+r.intn(4), r.intn(4) // otherwise the same shape and size again
				}
				q := clntMkRq(r, fc, fr, variant)
				if r.intn(2) == 0 {
					q = clntMkRq(r, fc, fr, variant)
				}
				rep := q.reply(r)
				b := rep.bytes
				steps := clntCutAs(b, []int{r.intn(2)})
				if len(b) > 3 && r.intn(2) == 0 {
					steps = clntCutAs(b, clntClassMixes[r.intn(4)], 1+r.intn(len(b)-2)) // never at len-1 (D7)
				}
				ops = append(ops, clntOp{what: 2, rq: q, sc: clntScript{steps: steps}, want: rep.want})
			}
			if kind != 2 && r.intn(3) == 0 {
				// FC23 completes on the network clients when the stream ends with the reply
				q := clntMkRq(r, 23, fr, r.intn(4))
				rep := q.reply(r)
				ops = append(ops, clntOp{what: 2, rq: q, sc: clntScript{steps: clntCutAs(rep.bytes, []int{2})}, want: rep.want})
			}
			emit(true, ops...)
		}
		n := 150
		if thorough {
			n = 2000
		}
		for j := 0; j < n; j++ {
			var ops []clntOp
			for l := 2 + r.intn(4); l > 0; l-- {
				switch x := r.intn(10); {
				case x < 2 && kind != 2:
					ops = append(ops, clntOp{what: 0, fail: []int{0, 0, 0, 1, 2}[r.intn(5)]})
				case x < 3:
					ops = append(ops, closeOp)
				case x < 6:
					ops = append(ops, normal())
				default:
					ops = append(ops, fault(r.intn(nFaults)))
				}
			}
			emit(kind != 2 || r.intn(4) != 0, ops...)
		}
	}
}

// ---------- C12 ----------

var clntAlphabet = []byte{0x00, 0x01, 0x7f, 0x80, 0x83, 0xff}

// clntGenLateException: the accumulated bytes are NOT a consistent frame, but a later read delivers
// exactly five bytes that are a CRC-valid exception frame on their own
func clntGenLateException(r *rng, f func(c *clntCase)) {
	i := 0
	for kind := 1; kind < 3; kind++ {
		tail := func() []clntStep {
			if kind == 1 {
				return []clntStep{clntEOF(nil)}
			}
			return clntTail()
		}
		for ctor := 0; ctor < clntCtors[kind]; ctor++ {
			emit := func(q *clntRq, steps []clntStep) {
				i++
				f(&clntCase{kind: kind, conn: true, flusher: i%4 == 0, hooks: i%2 == 0, rq: q,
					sc: clntScript{steps: append(steps, tail()...)}, ctor: ctor, ctorSet: true})
			}
			for _, fc := range fcs {
				q := clntMkRq(r, fc, 1, 1+r.intn(2))
				b := q.reply(r).bytes
				for _, code := range []uint8{1, 2, 4} {
					ex := q.exception(code).bytes
					other := clntADU(1, 0, r.u8(), []byte{0x83, 0x02})
					for k := 1; k <= 3; k++ {
						for _, e := range [][]byte{ex, other} {
							// k noise bytes, then the exception frame in a read of its own
							noise := r.bytes(k)
							if k == 1 && code == 1 {
								noise = []byte{0}
							}
							emit(q, []clntStep{clntData(noise), clntData(e)})
							emit(q, []clntStep{clntLate(noise), clntQuiet(), clntLate(e)})
							// the first k bytes of the valid reply instead of noise
							emit(q, []clntStep{clntData(b[:k]), clntData(e)})
							if k > 1 {
								st := []clntStep{}
								for _, x := range b[:k] {
									st = append(st, clntData([]byte{x}))
								}
								emit(q, append(st, clntQuiet(), clntData(e)))
							}
						}
					}
					// the valid reply with its tail overwritten by the exception frame, cut in front of it
					if len(b) > 5 {
						m := append(append([]byte(nil), b[:len(b)-5]...), ex...)
						emit(q, clntCut(m, len(m)-5))
						emit(q, clntCutAs(m, []int{1, 0}, len(m)-5))
						if len(m) > 7 {
							emit(q, clntCut(m, 2, len(m)-5))
						}
						// ... and appended to the complete valid reply
						emit(q, []clntStep{clntData(b), clntData(ex)})
					}
				}
			}
		}
	}
}

// clntGenWrapIndex: replies of 257..260 bytes for the RTU clients whose BEGINNING is consistent although
// the whole is not: bytes [n-258, n-256) hold the CRC of the bytes before them (what a check with an
// 8-bit trailer index would look at).  The network client hands up to 260 bytes to the parser, the
// serial client refuses them as too long.
func clntGenWrapIndex(r *rng, f func(c *clntCase)) {
	i := 0
	crc := func(b []byte) []byte { c := packet.CRC16(b); return []byte{byte(c), byte(c >> 8)} }
	for kind := 1; kind < 3; kind++ {
		for ctor := 0; ctor < clntCtors[kind]; ctor++ {
			emit := func(q *clntRq, b []byte, cuts ...int) {
				i++
				tail := clntTail()
				if kind == 1 {
					tail = []clntStep{clntEOF(nil)}
				}
				f(&clntCase{kind: kind, conn: true, flusher: i%4 == 0, hooks: i%2 == 0, rq: q,
					sc: clntScript{steps: append(clntCutAs(b, clntClassMixes[i%4], cuts...), tail...)}, ctor: ctor, ctorSet: true})
			}
			// FC17, any unit: server id length / first id byte = CRC16(unit, 0x11), noise up to n bytes
			for k := 0; k < 6; k++ {
				q := clntMkRq(r, 17, 1, k%4)
				for _, n := range []int{257, 258, 259, 260} {
					b := append([]byte{q.unit, 0x11}, crc([]byte{q.unit, 0x11})...)
					b = append(b, r.bytes(n-len(b))...)
					emit(q, b)
					emit(q, b, 1)
					// the same with a consistent real trailer on the first 255 bytes
					b2 := append([]byte(nil), b...)
					copy(b2[253:], crc(b2[:253]))
					emit(q, b2)
				}
			}
			// FC1-4, FC23 with the units for which the low CRC byte of (unit, fc) is 0xFF: the maximum reply
			// with the byte count raised from 250 to 255 and 5 bytes appended is 260 bytes long and
			// bytes 2..3 are the CRC of bytes 0..1
			for _, fc := range []int{1, 2, 3, 4} {
				for u := 0; u < 256; u++ {
					c := crc([]byte{byte(u), byte(fc)})
					if c[0] != 0xFF {
						continue
					}
					q := clntMkRq(r, fc, 1, 3)
					q.unit = uint8(u)
					q.cargs[1] = I(u)
					switch fc {
					case 1:
						q.req = clntMust(packet.NewReadCoilsRequestRTU(q.unit, q.addr, q.qty))
					case 2:
						q.req = clntMust(packet.NewReadDiscreteInputsRequestRTU(q.unit, q.addr, q.qty))
					case 3:
						q.req = clntMust(packet.NewReadHoldingRegistersRequestRTU(q.unit, q.addr, q.qty))
					case 4:
						q.req = clntMust(packet.NewReadInputRegistersRequestRTU(q.unit, q.addr, q.qty))
					}
					d := r.bytes(255)
					d[0] = c[1]
					b := append([]byte{q.unit, byte(fc), 255}, d...)
					b = append(b, r.bytes(2)...) // 260 bytes, trailer arbitrary
					emit(q, b)
					emit(q, b, 100)
					emit(q, b, 253)
				}
			}
			// generic: any request type, n = 258..260, the wrapped index made consistent
			for _, fc := range fcs {
				q := clntMkRq(r, fc, 1, 3)
				for _, n := range []int{258, 259, 260} {
					b := append([]byte(nil), q.reply(r).bytes...)
					if len(b) > n {
						b = b[:n]
					}
					b = append(b, r.bytes(n-len(b))...)
					idx := n - 258
					copy(b[idx:], crc(b[:idx]))
					emit(q, b)
					emit(q, b, 3)
				}
			}
		}
	}
}

func clntGenC12(r *rng, thorough bool, f func(c *clntCase)) {
	clntGenExtended(r, []int{1, 2}, f)
	clntGenLateException(r, f)
	clntGenWrapIndex(r, f)
	i := 0
	deliver := func(kind int, q *clntRq, m []byte) {
		tail := clntTail()
		if kind == 1 {
			tail = []clntStep{clntEOF(nil)}
		}
		i++
		f(&clntCase{kind: kind, conn: true, flusher: i%4 == 0, hooks: i%2 == 0, rq: q,
			sc: clntScript{steps: append(clntCut(m), tail...)}})
		if len(m) > 5 {
			i++
			f(&clntCase{kind: kind, conn: true, flusher: i%4 == 0, hooks: i%2 == 0, rq: q,
				sc: clntScript{steps: append(clntCut(m, 5), tail...)}})
		}
	}
	mutations := func(kind int, q *clntRq, b []byte, allBytes bool) {
		cp := func() []byte { return append([]byte(nil), b...) }
		deliver(kind, q, cp())
		for p := range b {
			for bit := 0; bit < 8; bit++ {
				m := cp()
				m[p] ^= 1 << bit
				deliver(kind, q, m)
			}
			if allBytes {
				for v := 0; v < 256; v++ {
					if byte(v) != b[p] {
						m := cp()
						m[p] = byte(v)
						deliver(kind, q, m)
					}
				}
			} else {
				for _, v := range clntAlphabet {
					if v != b[p] {
						m := cp()
						m[p] = v
						deliver(kind, q, m)
					}
				}
			}
		}
		n := len(b)
		// truncations and extensions
		for k := 0; k < n; k++ {
			if k < 12 || k > n-4 || thorough {
				deliver(kind, q, cp()[:k])
			}
		}
		for _, ext := range [][]byte{{0}, {0xff}, r.bytes(2), r.bytes(3), b} {
			deliver(kind, q, append(cp(), ext...))
		}
		// the trailer itself
		m := cp()
		m[n-1], m[n-2] = m[n-2], m[n-1]
		deliver(kind, q, m)
		m = cp()
		m[n-1], m[n-2] = 0, 0
		deliver(kind, q, m)
		m = cp()
		m[n-1], m[n-2] = 0xff, 0xff
		deliver(kind, q, m)
		// two corruptions
		for k := 0; k < 6; k++ {
			m = cp()
			m[r.intn(n)] ^= 1 << r.intn(8)
			m[r.intn(n)] ^= 1 << r.intn(8)
			deliver(kind, q, m)
		}
	}
	for kind := 1; kind < 3; kind++ {
		for _, fc := range fcs {
			for _, variant := range []int{0, 1, 2} {
				if variant == 2 && !thorough && fc != 3 && fc != 17 {
					continue
				}
				q := clntMkRq(r, fc, 1, variant)
				mutations(kind, q, q.reply(r).bytes, false)
			}
			q := clntMkRq(r, fc, 1, 1)
			mutations(kind, q, q.exception(uint8(1+r.intn(4))).bytes, fc == 3 || thorough)
			// an exception-shaped frame with a wrong trailer (the witness of the repaired defect),
			// and a valid exception frame followed by more bytes
			deliver(kind, q, []byte{q.unit, byte(fc) | 0x80, 2, 0xde, 0xad})
			deliver(kind, q, append(q.exception(2).bytes, r.bytes(1+r.intn(4))...))
		}
	}
}
