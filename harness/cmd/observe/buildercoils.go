package main

// Builder layer: the "extract_coils" stream (entry "extract_hand").  Coil extraction over
// BuilderRequest values made by hand or re-ordered by their user: StartAddress plus Fields in
// ARBITRARY order, with addresses before the start address or beyond the last bit of the reply in
// first, middle and last position, duplicates, non-coil members; FC1 / FC2 replies (TCP, RTU) of
// 1..250 data bytes; ExtractFields strict and lenient.  A share of the cases hands the same kind of
// request a register reply (correspondence only).

import (
	"strconv"

	modbus "github.com/aldas/go-modbus-client"
	"github.com/aldas/go-modbus-client/packet"
)

func init() {
	streams["extract_coils"] = streamExtractCoils
}

func extractHandCase(start uint16, fields []modbus.Field, tcp bool, frame []byte) {
	outcome := guard(func() V {
		var resp packet.Response
		var perr error
		if tcp {
			resp, perr = packet.ParseTCPResponse(frame)
		} else {
			resp, perr = packet.ParseRTUResponseWithCRC(frame)
		}
		if perr != nil {
			return L(I(4))
		}
		q := modbus.BuilderRequest{ServerAddress: "hand", UnitID: 1, StartAddress: start, Fields: fields}
		var sv, lv []modbus.FieldValue
		var se, le error
		sp := guard(func() V { sv, se = q.ExtractFields(resp, false); return nil })
		lp := guard(func() V { lv, le = q.ExtractFields(resp, true); return nil })
		strict, lenient := sp, lp
		if sp == nil {
			strict = projExtraction(fields, sv, se)
		}
		if lp == nil {
			lenient = projExtraction(fields, lv, le)
		}
		return vOk(strict, lenient)
	})
	emit("extract_hand", L(I(int(start)), fieldVals(fields), B(frame), Bool(tcp)), outcome)
}

// coilMembers: n members for a reply of nbits coil positions starting at start; where[i] says
// whether member i lies inside (0), before the start (1) or beyond the reply (2)
func coilMembers(r *rng, start uint16, nbits int, where []int) []modbus.Field {
	fields := make([]modbus.Field, len(where))
	for i, w := range where {
		var a uint16
		switch w {
		case 0:
			a = start + uint16(r.intn(nbits))
			if r.intn(5) == 0 {
				a = start + uint16(nbits-1-r.intn(2)%nbits) // last positions
			}
			if r.intn(6) == 0 {
				a = start
			}
		case 1:
			a = start - uint16(1+r.intn(4))
			if r.intn(4) == 0 {
				a = start - uint16(1+r.intn(3000))
			}
		default:
			a = start + uint16(nbits+r.intn(4))
			if r.intn(4) == 0 {
				a = start + uint16(nbits+r.intn(3000))
			}
		}
		ty := modbus.FieldTypeCoil
		if r.intn(12) == 0 {
			ty = modbus.FieldType(1 + r.intn(13))
		}
		fields[i] = modbus.Field{Name: strconv.Itoa(i), ServerAddress: "hand", UnitID: 1, Address: a, Type: ty}
	}
	return fields
}

func streamExtractCoils(seed uint64, thorough bool) {
	r := newRng(seed ^ 0xBC0)
	// every placement pattern of up to 4 members (inside / before / beyond), 1 and 2 byte replies
	for n := 1; n <= 4; n++ {
		total := 1
		for i := 0; i < n; i++ {
			total *= 3
		}
		for code := 0; code < total; code++ {
			where := make([]int, n)
			c := code
			for i := range where {
				where[i] = c % 3
				c /= 3
			}
			for _, nb := range []int{1, 2} {
				start := uint16(100)
				data := r.bytes(nb)
				fc := byte(1 + code%2)
				tcp := code%4 < 2
				extractHandCase(start, coilMembers(r, start, 8*nb, where), tcp,
					respFrame(tcp, r.u16(), 1, append([]byte{fc, byte(nb)}, data...)))
			}
		}
	}
	n := 6000
	if thorough {
		n = 60000
	}
	for i := 0; i < n; i++ {
		start := r.edge16()
		if r.intn(3) == 0 {
			start = uint16(r.intn(70000))
		}
		nb := 1 + r.intn(4)
		switch r.intn(12) {
		case 0:
			nb = 1 + r.intn(250)
		case 1:
			nb = 1
		}
		cnt := 1 + r.intn(10)
		where := make([]int, cnt)
		switch r.intn(5) {
		case 0: // all inside
		case 1: // exactly one outside, anywhere
			where[r.intn(cnt)] = 1 + r.intn(2)
		case 2: // outside members strictly between an inside first and an inside last member
			for j := 1; j < cnt-1; j++ {
				if r.bool() {
					where[j] = 1 + r.intn(2)
				}
			}
		default:
			for j := range where {
				if r.intn(3) == 0 {
					where[j] = 1 + r.intn(2)
				}
			}
		}
		fields := coilMembers(r, start, 8*nb, where)
		tcp := r.bool()
		var pdu []byte
		if r.intn(10) == 0 { // a register reply for the same request: correspondence only
			k := 2 * (1 + r.intn(6))
			pdu = append([]byte{byte(3 + r.intn(2)), byte(k)}, r.bytes(k)...)
		} else {
			data := r.bytes(nb)
			switch r.intn(6) {
			case 0:
				for j := range data {
					data[j] = 0xFF
				}
			case 1:
				for j := range data {
					data[j] = 0
				}
			}
			pdu = append([]byte{byte(1 + r.intn(2)), byte(nb)}, data...)
		}
		extractHandCase(start, fields, tcp, respFrame(tcp, r.u16(), 1, pdu))
	}
}
