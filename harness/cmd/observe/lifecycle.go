package main

// Stream "lifecycle" (C17): the REAL server.Server runs via Serve over the in-memory listener of
// lifecyclenet.go with scripted clients, for all 16 callback configurations.  Every script step
// synchronises at a quiescent point before the next one, so the observable outcome of a run does not
// depend on wall-clock races (the server's 50 ms shutdown poll and the read deadlines do not matter).
// Emitted per run: entry "lifecycle", args [cfg, script, event log, extra], outcome ok[summary].

import (
	"context"
	"errors"
	"fmt"
	"log"
	"net"
	"sort"
	"strings"
	"sync"
	"time"

	"github.com/aldas/go-modbus-client/packet"
	"github.com/aldas/go-modbus-client/server"
)

const (
	opConnect          = 0 // arg bit 0: the accept callback (if set) rejects it; bit 1 (also for 13, 14): the connection's Close returns an error
	opSend             = 1 // arg: handler mode
	opRelease          = 2
	opDisconnect       = 3
	opShutdown         = 4
	opShutdownAsync    = 5
	opAwaitShutdown    = 6
	opCancel           = 7
	opConnectRefused   = 8
	opGarbage          = 9
	opPartial          = 10
	opRest             = 11
	opPipelined        = 12
	opConnectCancel    = 13 // the serve context is cancelled while this connection is being accepted
	opConnectHeld      = 14 // serve is held between the accept stage and its select / trackConn
	opUnhold           = 15
	opShutdownFresh    = 16 // Shutdown before Serve
	opShutdownShortCtx = 17
	opPeerReset        = 18
	opShutdownAgain    = 19
	opSendSlow         = 20 // like opSend, but the client is slow to read: the server's Write stays in progress
	opResumeRead       = 21 // the slow client reads on
	opDisconnectDial   = 23 // client cl disconnects; the NEXT client (arg) is dialled from inside cl's close callback (if set)
	opClientGone       = 24 // the client of a connection whose handler is blocked closes its end: the reply write will fail
	opShutdownInServe  = 25 // first op: Shutdown is called from inside OnServeFunc (if set; else before Serve)
	opLongRead         = 27 // pseudo-op at the front: Server.ReadTimeout 30 s -- an idle connection sits in Read and does not notice a cancelled context
	opReserve          = 28 // the SAME Server value is served again, on a new listener with a new context (after the first Serve has returned)
	opWriteTimeout     = 26 // pseudo-op at the front: Server.WriteTimeout of the run in ms (cl; 0 = the server's default 50 ms)
	opBurst            = 22 // first op: cl connections are queued in the listener before Serve starts; the accept callback (if set) rejects when told a count > arg (arg 0: no limit)
)

const (
	hNormal     = 0
	hError      = 1
	hPanic      = 2
	hBlock      = 3
	hSleep      = 4
	hBlockPanic = 5 // blocks until released, then panics
)

type lcOp struct{ op, cl, arg int }

type lcClient struct {
	conn    *lcMemConn
	state   int // 0 none, 1 open, 2 gone, 3 rejected, 4 leaked, 5 held
	blocked bool
	doomed  bool // blocked, and its exchange will not produce a reply (handler panics on release / client gone)
	slow    bool // a request with a slow reader is outstanding
	wwait   bool // the server's Write to this client is blocked
	seq     int
	sent    map[uint16]bool
	partial []byte
}

type lcRun struct {
	w         *lcWorld
	cfg       int
	srv       *server.Server
	lis       *memListener
	cancel    context.CancelFunc
	clients   map[int]*lcClient
	release   chan struct{}
	unhold    chan struct{}
	serveRet  chan struct{}
	stopped   bool // serve has been told to stop (cancel or shutdown)
	sdAsync   bool
	sdSeen    int // evSdReturn events before the asynchronous Shutdown was started
	cancelled bool
	shutBegun bool // some Shutdown call has been made: isShutdown is (being) set
	limit     int
	longRead  bool
	reserve   func()        // starts Serve again
	wt        time.Duration // effective write timeout of the server in this run
	inbound   int
	refused   int
	escaped   int
	sdCode    int
}

func (r *lcRun) onAccept() bool { return r.cfg&4 != 0 }
func (r *lcRun) onClose() bool  { return r.cfg&8 != 0 }

type lcResp struct{ b []byte }

func (x lcResp) FunctionCode() uint8 { return x.b[7] }
func (x lcResp) Bytes() []byte       { return x.b }

type lcHandler struct{ r *lcRun }

func (h lcHandler) Handle(ctx context.Context, received packet.Request) (packet.Response, error) {
	r := h.r
	id := ctx.Value(server.ContextRemoteAddr{}).(net.Addr).(lcMemAddr).id
	b := received.Bytes()
	mode := int(b[8])
	// the release channel is taken in the same critical section that logs the start: a script step that
	// has seen the start event and then releases always releases this handler
	r.w.mu.Lock()
	ch := r.release
	r.w.logLocked(lcEvent{code: evHandlerStart, c: id})
	r.w.mu.Unlock()
	switch mode {
	case hPanic:
		r.w.mu.Lock()
		r.w.conns[id].errsExpected++
		r.w.logLocked(lcEvent{code: evHandlerEnd, c: id})
		r.w.mu.Unlock()
		panic(memErr{r.w.id, id, "handler panic"})
	case hBlock:
		<-ch
	case hBlockPanic:
		<-ch
		r.w.mu.Lock()
		r.w.conns[id].errsExpected++
		r.w.logLocked(lcEvent{code: evHandlerEnd, c: id})
		r.w.mu.Unlock()
		panic(memErr{r.w.id, id, "handler panic"})
	case hSleep:
		// longer than the server's write timeout: the reply must still be written (the write deadline
		// counts from the write, not from the arrival of the request)
		d := 15 * time.Millisecond
		if r.wt <= 100*time.Millisecond {
			d = r.wt + 10*time.Millisecond
		}
		time.Sleep(d)
	}
	r.w.log(evHandlerEnd, id, 1, 0)
	if mode == hError {
		return nil, errors.New("handler error")
	}
	return lcResp{[]byte{b[0], b[1], 0, 0, 0, 5, b[6], 3, 2, 0xab, 0xcd}}, nil
}

func lcRequest(tid uint16, mode int) []byte {
	return []byte{byte(tid >> 8), byte(tid), 0, 0, 0, 6, 1, 3, byte(mode), 0, 0, 1}
}

func errCode(err error, closed error) int {
	switch {
	case err == nil:
		return 0
	case closed != nil && errors.Is(err, closed):
		return 1
	case errors.Is(err, context.DeadlineExceeded) || errors.Is(err, context.Canceled):
		return 3
	default:
		return 2
	}
}

func runLifecycle(cfg int, script []lcOp) (events []lcEvent, extra [3]int, summary V) {
	w := newWorld()
	r := &lcRun{w: w, cfg: cfg, clients: map[int]*lcClient{}, release: make(chan struct{}), unhold: make(chan struct{}),
		serveRet: make(chan struct{}), inbound: 1, refused: 2, sdCode: -1}
	r.lis = &memListener{w: w}
	ctx, cancel := context.WithCancel(context.Background())
	r.cancel = cancel
	w.cancelFn = cancel
	defer cancel()
	wt := time.Minute
	if len(script) > 0 && script[0].op == opWriteTimeout {
		wt = time.Duration(script[0].cl) * time.Millisecond
		script = script[1:]
	}
	rt := 10 * time.Millisecond
	if len(script) > 0 && script[0].op == opLongRead {
		rt = 30 * time.Second
		r.longRead = true
		script = script[1:]
	}
	s := &server.Server{ReadTimeout: rt, WriteTimeout: wt}
	r.wt = wt
	if wt == 0 {
		r.wt = 50 * time.Millisecond // the server's default
	}
	r.srv = s
	inServe := len(script) > 0 && script[0].op == opShutdownInServe
	if cfg&1 != 0 {
		s.OnServeFunc = func(addr net.Addr) {
			w.log(evServeCb, 0, 0, 0)
			if inServe {
				// Shutdown in serve's start-up window: the listener has not been published yet
				w.logScript(evSdCall, 0, 1, 0)
				code := r.shutdown(15 * time.Second)
				r.sdCode = code
				w.logScript(evSdReturn, 0, code, 0)
			}
		}
	}
	if cfg&2 != 0 {
		s.OnErrorFunc = func(err error) {
			// which connection the error belongs to (only used by the script to know when a connection
			// goroutine is past its last callback; the validator ignores it)
			id := -1
			var me memErr
			if errors.As(err, &me) {
				id = me.id
			} else if i := strings.Index(err.Error(), "#c="); i >= 0 {
				fmt.Sscanf(err.Error()[i:], "#c=%d#", &id)
			}
			w.mu.Lock()
			if id >= 0 && id < len(w.conns) {
				w.conns[id].errsSeen++
			}
			w.logLocked(lcEvent{code: evErrCb})
			w.mu.Unlock()
		}
	}
	if cfg&4 != 0 {
		s.OnAcceptConnFunc = func(ctx context.Context, remoteAddr net.Addr, connectionCount uint64) error {
			id := remoteAddr.(lcMemAddr).id
			w.mu.Lock()
			c := w.conns[id]
			rej := c.rejectMe || (r.limit > 0 && int(connectionCount) > r.limit)
			ok := 1
			if rej {
				ok = 0
			}
			w.logLocked(lcEvent{code: evAcceptCb, c: id, a: int(connectionCount), b: ok})
			if c.cancelMe {
				r.cancel()
				w.logLocked(lcEvent{code: evCancel, script: true})
			}
			w.mu.Unlock()
			if rej {
				return errors.New("rejected")
			}
			return nil
		}
	}
	if cfg&8 != 0 {
		s.OnCloseConnFunc = func(ctx context.Context, remoteAddr net.Addr, isServerShutdown bool) {
			b := 0
			if isServerShutdown {
				b = 1
			}
			id := remoteAddr.(lcMemAddr).id
			w.log(evCloseCb, id, b, 0)
			w.mu.Lock()
			h := w.conns[id].closeHook
			w.mu.Unlock()
			if h != nil {
				h() // the callback is still running while the hook dials the next client
			}
		}
	}

	start := 0
	if inServe && cfg&1 != 0 {
		start = 1
		r.shutBegun = true
		r.stopped = true
	} else if len(script) > 0 && (script[0].op == opShutdownFresh || inServe) {
		start = 1
		r.shutBegun = true
		r.stopped = true
		w.logScript(evSdCall, 0, 1, 0)
		code := 4
		func() {
			defer func() { _ = recover() }()
			c2, cc := context.WithTimeout(context.Background(), 15*time.Second)
			defer cc()
			code = errCode(s.Shutdown(c2), nil)
		}()
		r.sdCode = code
		w.logScript(evSdReturn, 0, code, 0)
	}

	burst := 0
	if len(script) > start && script[start].op == opBurst {
		burst = script[start].cl
		r.limit = script[start].arg
		start++
		w.mu.Lock()
		for i := 0; i < burst; i++ {
			c := &lcMemConn{w: w, id: -1}
			r.lis.pending = append(r.lis.pending, c)
			r.clients[i] = &lcClient{conn: c, sent: map[uint16]bool{}}
		}
		w.mu.Unlock()
	}

	startServe := func(ctx context.Context, lis *memListener, ret chan struct{}) {
		go func() {
			defer close(ret)
			code := -1
			func() {
				defer func() {
					if rec := recover(); rec != nil {
						r.escaped = 1
					}
				}()
				code = errCode(s.Serve(ctx, lis, lcHandler{r}), server.ErrServerClosed)
			}()
			if code >= 0 {
				w.log(evServeReturn, 0, code, 0)
			}
		}()
		// Serve is inside Accept => the listener has been published
		w.waitFor("serve accepting", func() bool { return lis.accepts >= 1 || lis.closed })
	}
	startServe(ctx, r.lis, r.serveRet)
	r.reserve = func() {
		// the same Server value, a new listener, a new context
		ctx2, cancel2 := context.WithCancel(context.Background())
		w.mu.Lock()
		r.lis = &memListener{w: w}
		r.cancel = cancel2
		w.cancelFn = cancel2
		r.serveRet = make(chan struct{})
		w.mu.Unlock()
		r.stopped = false
		r.cancelled = false
		startServe(ctx2, r.lis, r.serveRet)
	}

	for i := 0; i < burst; i++ {
		cl := r.clients[i]
		c := cl.conn
		rejected := false
		w.waitFor("burst settled", func() bool {
			if c.id < 0 {
				return false
			}
			if r.onAccept() {
				seen := false
				for _, e := range w.events {
					if e.code == evAcceptCb && e.c == c.id {
						seen = true
						rejected = e.b == 0
					}
				}
				if !seen {
					return false
				}
			}
			if rejected {
				return c.ownCloses >= 1
			}
			return c.readCalls >= 1
		})
		if rejected {
			w.mu.Lock()
			w.logLocked(lcEvent{code: evClientClosed, c: c.id})
			w.mu.Unlock()
			cl.state = 3
		} else {
			cl.state = 1
		}
	}
	for _, o := range script[start:] {
		r.step(o)
	}
	r.finale()

	// summary
	w.mu.Lock()
	defer w.mu.Unlock()
	serveCode := -1
	errs := 0
	for _, e := range w.events {
		if e.code == evServeReturn {
			serveCode = e.a
		}
		if e.code == evErrCb {
			errs++
		}
	}
	var cs []V
	for _, c := range w.conns {
		acc := -1
		class := 2
		for _, e := range w.events {
			if e.code == evAcceptCb && e.c == c.id {
				acc = e.a
				if e.b == 0 {
					class = 1
				}
			}
		}
		if class == 2 && c.closeCalls == 0 {
			class = 3
		}
		closed := 0
		if c.srvClosed {
			closed = 1
		}
		cs = append(cs, L(I(acc), I(class), I(w.countLocked(evCloseCb, c.id)), I(c.recvReplies), I(closed)))
	}
	if len(w.failed) > 0 {
		r.escaped = 2
	}
	extra = [3]int{r.inbound, r.refused, r.escaped}
	summary = L(I(serveCode), I(r.sdCode), I(0), I(errs), L(cs...))
	return canonLog(w.events), extra, summary
}

func (r *lcRun) client(k int) *lcClient {
	c := r.clients[k]
	if c == nil {
		c = &lcClient{sent: map[uint16]bool{}}
		r.clients[k] = c
	}
	return c
}

// awaitReplies waits until the client has read n more replies to its requests
func (r *lcRun) awaitReplies(cl *lcClient, n int) {
	c := cl.conn
	target := c.recvReplies + n
	r.w.waitFor("reply", func() bool {
		for _, f := range c.clTakeFramesLocked() {
			tid := uint16(f[0])<<8 | uint16(f[1])
			if cl.sent[tid] {
				delete(cl.sent, tid)
				c.recvReplies++
				r.w.logLocked(lcEvent{code: evClientRecv, c: c.id, a: c.recvReplies})
			}
		}
		return c.recvReplies >= target
	})
}

// awaitGone waits until the connection goroutine itself has called Close and the close callback (if
// set) has run: the goroutine is then past its last observable action
func (r *lcRun) awaitGone(cl *lcClient) {
	c := cl.conn
	r.w.waitFor("conn gone", func() bool {
		return c.ownCloses >= 1 && (!r.onClose() || r.w.countLocked(evCloseCb, c.id) >= 1) &&
			c.errsSeen >= c.errsExpected
	})
	r.w.mu.Lock()
	c.clTakeFramesLocked()
	r.w.logLocked(lcEvent{code: evClientClosed, c: c.id})
	r.w.mu.Unlock()
	cl.state = 2
	time.Sleep(2 * time.Millisecond) // lets trackConn(c,false) finish when there is no close callback to wait for
}

func (r *lcRun) newTid(cl *lcClient) uint16 {
	cl.seq++
	tid := uint16(cl.conn.id*1000 + cl.seq)
	cl.sent[tid] = true
	return tid
}

func (r *lcRun) afterShutdown(code int) {
	r.sdCode = code
	r.stopped = true
	if !r.anyHeld() {
		r.awaitServe()
	}
	// connections Shutdown has closed: its Close + the goroutine's own
	for _, k := range r.sortedClients() {
		cl := r.clients[k]
		if cl.state == 1 && !cl.blocked && !cl.wwait {
			r.awaitGone(cl)
		}
	}
}

func (r *lcRun) awaitServe() {
	if r.inbound == 0 {
		return // already found hanging
	}
	t0 := time.Now()
	select {
	case <-r.serveRet:
		if time.Since(t0) > 10*time.Second {
			r.inbound = 0
		}
	case <-time.After(20 * time.Second):
		r.inbound = 0
	}
}

func (r *lcRun) sortedClients() []int {
	var ks []int
	for k := range r.clients {
		ks = append(ks, k)
	}
	sort.Ints(ks)
	return ks
}

func (r *lcRun) shutdown(d time.Duration) int {
	r.shutBegun = true
	c2, cc := context.WithTimeout(context.Background(), d)
	defer cc()
	code := 4
	r.w.mu.Lock()
	r.w.sdGID = curGID()
	r.w.mu.Unlock()
	func() {
		defer func() { _ = recover() }()
		code = errCode(r.srv.Shutdown(c2), nil)
	}()
	r.w.mu.Lock()
	r.w.sdGID = 0
	r.w.mu.Unlock()
	return code
}

func (r *lcRun) step(o lcOp) {
	w := r.w
	cl := r.client(o.cl)
	switch o.op {
	case opConnect, opConnectCancel, opConnectHeld, opConnectRefused:
		if cl.state != 0 {
			return
		}
		rej := o.op == opConnect && o.arg&1 == 1 && r.onAccept()
		closeErr := o.arg&2 != 0
		holdCall := 1
		if r.onAccept() {
			holdCall = 2
		}
		c, ok := r.lis.dial(func(c *lcMemConn) {
			c.rejectMe = rej
			c.closeErr = closeErr
			switch o.op {
			case opConnectCancel:
				if r.onAccept() {
					c.cancelMe = true
				} else {
					c.cancelAtAccept = true
				}
			case opConnectHeld:
				c.addrHook = func(call int) {
					if call == holdCall {
						w.mu.Lock()
						c.held = true
						ch := r.unhold
						w.cond.Broadcast()
						w.mu.Unlock()
						<-ch
					}
				}
			}
		})
		if !ok {
			if r.sdCode == 0 {
				r.refused = 1
			}
			return
		}
		if r.sdCode == 0 && r.refused == 2 && o.op != opConnectHeld {
			r.refused = 0 // a connection was accepted after a successful Shutdown
		}
		r.settle(cl, c, o.op, rej)
	case opDisconnectDial:
		nxt := r.client(o.arg)
		if cl.state != 1 || cl.blocked || cl.wwait || nxt.state != 0 || o.arg == o.cl {
			return
		}
		if !r.onClose() {
			cl.conn.clClose()
			r.awaitGone(cl)
			r.step(lcOp{opConnect, o.arg, 0})
			return
		}
		got := make(chan *lcMemConn, 1)
		w.mu.Lock()
		cl.conn.closeHook = func() {
			c2, ok := r.lis.dial(nil)
			if ok && r.onAccept() {
				// the accept callback of the new connection runs while this close callback is still running
				w.waitFor("accept callback in close callback", func() bool { return w.countLocked(evAcceptCb, c2.id) >= 1 })
			}
			if !ok {
				c2 = nil
			}
			got <- c2
		}
		w.mu.Unlock()
		cl.conn.clClose()
		var c2 *lcMemConn
		select {
		case c2 = <-got:
		case <-time.After(25 * time.Second):
			w.mu.Lock()
			w.failed = append(w.failed, "dial in close callback")
			w.mu.Unlock()
		}
		r.awaitGone(cl)
		if c2 != nil {
			r.settle(nxt, c2, opConnect, false)
		}
	case opClientGone:
		if cl.state != 1 || !cl.blocked || cl.slow {
			return
		}
		cl.conn.clClose()
		cl.doomed = true
	case opUnhold:
		r.doUnhold()
	case opResumeRead:
		if cl.wwait {
			r.resume(cl)
		}
	case opSend, opPeerReset, opSendSlow:
		if cl.state != 1 || cl.blocked || cl.wwait || cl.partial != nil {
			return
		}
		mode := o.arg
		if o.op == opPeerReset {
			mode = hNormal
			w.mu.Lock()
			cl.conn.failWrites = true
			w.mu.Unlock()
		}
		if o.op == opSendSlow {
			if mode != hNormal && mode != hBlock {
				mode = hNormal
			}
			if mode == hBlockPanic {
				mode = hBlock
			}
			cl.slow = true
			w.mu.Lock()
			cl.conn.slowRead = true
			w.mu.Unlock()
		}
		tid := r.newTid(cl)
		starts := 0
		w.mu.Lock()
		starts = w.countLocked(evHandlerStart, cl.conn.id)
		w.mu.Unlock()
		cl.conn.clSend(lcRequest(tid, mode))
		switch {
		case o.op == opPeerReset || mode == hPanic:
			r.awaitGone(cl)
		case mode == hBlock || mode == hBlockPanic:
			cl.blocked = true
			cl.doomed = mode == hBlockPanic
			w.waitFor("handler start", func() bool { return w.countLocked(evHandlerStart, cl.conn.id) > starts })
		case o.op == opSendSlow:
			cl.wwait = true
			w.waitFor("write in progress", func() bool { return cl.conn.writeBlocked })
		default:
			r.awaitReplies(cl, 1)
		}
	case opPipelined:
		if cl.state != 1 || cl.blocked || cl.wwait || cl.partial != nil {
			return
		}
		a := lcRequest(r.newTid(cl), hNormal)
		b := lcRequest(r.newTid(cl), hError)
		cl.conn.clSend(append(a, b...))
		r.awaitReplies(cl, 2)
	case opGarbage:
		if cl.state != 1 || cl.blocked || cl.wwait || cl.partial != nil {
			return
		}
		cl.conn.clSend([]byte{0xff, 0xff, 0xff, 0xff, 0xff, 0xff, 0xff, 0xff, 0xff, 0xff, 0xff, 0xff})
		r.awaitGone(cl)
	case opPartial:
		if cl.state != 1 || cl.blocked || cl.wwait || cl.partial != nil {
			return
		}
		q := lcRequest(r.newTid(cl), hNormal)
		cl.partial = q[7:]
		reads := 0
		w.mu.Lock()
		reads = w.countLocked(evRead, cl.conn.id)
		w.mu.Unlock()
		cl.conn.clSend(q[:7])
		w.waitFor("partial read", func() bool { return w.countLocked(evRead, cl.conn.id) > reads })
	case opRest:
		if cl.state != 1 || cl.blocked || cl.wwait || cl.partial == nil {
			return
		}
		cl.conn.clSend(cl.partial)
		cl.partial = nil
		r.awaitReplies(cl, 1)
	case opRelease:
		r.doRelease()
	case opDisconnect:
		if cl.state != 1 || cl.blocked || cl.wwait {
			return
		}
		cl.conn.clClose()
		r.awaitGone(cl)
	case opShutdown, opShutdownAgain:
		if r.anyBlocked() || r.sdAsync {
			return
		}
		w.logScript(evSdCall, 0, 1, 0)
		code := r.shutdown(15 * time.Second)
		w.logScript(evSdReturn, 0, code, 0)
		r.afterShutdown(code)
	case opShutdownShortCtx:
		if r.sdAsync {
			return
		}
		w.logScript(evSdCall, 0, 0, 0)
		code := r.shutdown(150 * time.Millisecond)
		w.logScript(evSdReturn, 0, code, 0)
		r.afterShutdown(code)
	case opShutdownAsync:
		if r.sdAsync {
			return
		}
		r.sdAsync = true
		w.mu.Lock()
		r.sdSeen = w.countLocked(evSdReturn, 0)
		w.mu.Unlock()
		w.logScript(evSdCall, 0, 1, 0)
		go func() {
			code := r.shutdown(15 * time.Second)
			w.mu.Lock()
			w.logLocked(lcEvent{code: evSdReturn, a: code})
			w.mu.Unlock()
		}()
		// Shutdown is running once it has closed the listener (or has already returned)
		w.waitFor("shutdown begun", func() bool { return r.lis.closed || w.countLocked(evSdReturn, 0) > r.sdSeen })
	case opAwaitShutdown:
		r.doAwaitShutdown()
	case opReserve:
		if !r.stopped || r.shutBegun || r.anyHeld() {
			return
		}
		r.awaitServe()
		w.logScript(evReServe, 0, 0, 0)
		r.reserve()
	case opCancel:
		if r.cancelled {
			return
		}
		w.mu.Lock()
		r.cancel()
		w.logLocked(lcEvent{code: evCancel, script: true})
		w.mu.Unlock()
		r.stopped = true
		if !r.anyHeld() {
			r.awaitServe()
		}
		r.afterCancel()
	}
}

// settle waits until a freshly accepted connection has reached its next quiescent point
func (r *lcRun) settle(cl *lcClient, c *lcMemConn, op int, rej bool) {
	w := r.w
	cl.conn = c
	if r.onAccept() {
		// the verdict of the accept callback (scripted rejection or the limit) is read off the log
		w.waitFor("accept callback", func() bool {
			for _, e := range w.events {
				if e.code == evAcceptCb && e.c == c.id {
					rej = e.b == 0
					return true
				}
			}
			return false
		})
	}
	switch {
	case rej:
		w.waitFor("reject close", func() bool { return c.closeCalls >= 1 })
		w.mu.Lock()
		w.logLocked(lcEvent{code: evClientClosed, c: c.id})
		w.mu.Unlock()
		cl.state = 3
	case op == opConnectCancel:
		// serve sees the cancelled context in its select: it closes the connection, runs the close
		// callback and returns
		r.stopped = true
		r.awaitServe()
		r.awaitGone(cl)
		r.afterCancel()
	case op == opConnectHeld:
		w.waitFor("held", func() bool { return c.held })
		cl.state = 5
	default:
		w.waitFor("tracked", func() bool { return c.readCalls >= 1 })
		cl.state = 1
	}
}

func (r *lcRun) anyHeld() bool {
	for _, cl := range r.clients {
		if cl.state == 5 {
			return true
		}
	}
	return false
}

func (r *lcRun) anyBlocked() bool {
	for _, cl := range r.clients {
		if cl.blocked || cl.wwait {
			return true
		}
	}
	return false
}

// resumeAll lets every slow client read on: the blocked server writes complete
func (r *lcRun) resumeAll() {
	for _, k := range r.sortedClients() {
		if cl := r.clients[k]; cl.wwait {
			r.resume(cl)
		}
	}
}

func (r *lcRun) resume(cl *lcClient) {
	r.w.mu.Lock()
	cl.conn.resumes++
	cl.conn.slowRead = false
	r.w.cond.Broadcast()
	r.w.mu.Unlock()
	r.awaitReplies(cl, 1)
	cl.wwait = false
	cl.slow = false
	if r.cancelled {
		r.awaitGone(cl)
	}
}

// after the serve context is cancelled every connection goroutine leaves at its next loop iteration
func (r *lcRun) afterCancel() {
	r.cancelled = true
	for _, k := range r.sortedClients() {
		cl := r.clients[k]
		if cl.state == 1 && !cl.blocked && !cl.wwait && !r.longRead {
			r.awaitGone(cl) // (with a long read timeout an idle connection stays in Read: it does not see the context)
		}
	}
}

func (r *lcRun) doRelease() {
	var bl []*lcClient
	for _, k := range r.sortedClients() {
		if cl := r.clients[k]; cl.blocked {
			bl = append(bl, cl)
		}
	}
	if len(bl) == 0 {
		return
	}
	if r.wt <= 100*time.Millisecond {
		time.Sleep(r.wt + 5*time.Millisecond) // the blocked handlers have now run for longer than the write timeout
	}
	r.w.mu.Lock()
	close(r.release)
	r.release = make(chan struct{})
	r.w.mu.Unlock()
	for _, cl := range bl {
		if cl.doomed {
			// no reply will come: the handler panics / the write fails; the goroutine ends on its own
			cl.blocked = false
			r.awaitGone(cl)
			continue
		}
		if cl.slow {
			c := cl.conn
			r.w.waitFor("write in progress", func() bool { return c.writeBlocked })
			cl.blocked = false
			cl.wwait = true
			continue
		}
		r.awaitReplies(cl, 1)
		cl.blocked = false
		if r.cancelled {
			r.awaitGone(cl)
		}
	}
}

func (r *lcRun) doAwaitShutdown() {
	if !r.sdAsync {
		return
	}
	r.doRelease()
	r.resumeAll()
	code := -1
	r.w.waitFor("shutdown return", func() bool {
		n := 0
		for _, e := range r.w.events {
			if e.code == evSdReturn {
				n++
				code = e.a
			}
		}
		return n > r.sdSeen
	})
	r.sdAsync = false
	r.afterShutdown(code)
}

func (r *lcRun) doUnhold() {
	var held []*lcClient
	for _, k := range r.sortedClients() {
		if cl := r.clients[k]; cl.state == 5 {
			held = append(held, cl)
		}
	}
	if len(held) == 0 {
		return
	}
	r.w.mu.Lock()
	close(r.unhold)
	r.unhold = make(chan struct{})
	cancelled := r.cancelled || r.shutBegun
	r.w.mu.Unlock()
	for _, cl := range held {
		if cancelled {
			// the hold is before serve's select and trackConn: a cancelled context makes the select drop
			// the connection, a Shutdown makes trackConn refuse it; either way serve closes it
			r.awaitGone(cl)
			continue
		}
		c := cl.conn
		r.w.waitFor("tracked after hold", func() bool { return c.readCalls >= 1 })
		cl.state = 1
	}
	if r.stopped {
		r.awaitServe()
	}
}

// finale brings every run to the same kind of quiescent end: handlers released, serve stopped,
// every client disconnected, every connection goroutine finished
func (r *lcRun) finale() {
	if r.sdAsync {
		r.doAwaitShutdown()
	}
	r.doRelease()
	r.resumeAll()
	r.doUnhold()
	if !r.stopped {
		r.step(lcOp{op: opCancel})
	} else {
		r.awaitServe()
	}
	for _, k := range r.sortedClients() {
		cl := r.clients[k]
		if cl.state == 1 {
			cl.conn.clClose()
			r.awaitGone(cl)
		}
	}
}

// canonLog makes the emitted log independent of the order in which concurrently finishing
// connection goroutines were scheduled: between two events of the script thread, and if no accept
// happens in between (the only cross-connection data flow is the counter read by the accept
// callback) and no Shutdown is running (it holds the mutex the connections need to untrack), the
// events of different connections are independent in the LTS; they are grouped by connection,
// keeping each connection's own order.  Events without a connection (serve's return included: serve
// itself closes rejected and dropped connections) delimit the segments and keep their place.
func canonLog(evs []lcEvent) []lcEvent {
	var out []lcEvent
	flush := func(seg []lcEvent) {
		ok := true
		for _, e := range seg {
			if e.code == evAccept || e.code == evAcceptCb || e.code == evServeCb || e.code == evErrCb || e.code == evDefLog {
				ok = false
			}
		}
		if ok {
			key := func(e lcEvent) int {
				switch e.code {
				case evServeReturn, evSdReturn, evSdCall, evCancel:
					return -1
				}
				return e.c
			}
			sort.SliceStable(seg, func(i, j int) bool { return key(seg[i]) < key(seg[j]) })
		}
		out = append(out, seg...)
	}
	var seg []lcEvent
	inShutdown := false // Shutdown holds the mutex: its visits and the connections' untracking are ordered
	for _, e := range evs {
		if e.script || e.code == evSdReturn || e.code == evServeReturn {
			if inShutdown {
				out = append(out, seg...)
			} else {
				flush(seg)
			}
			seg = nil
			out = append(out, e)
			if e.code == evSdCall {
				inShutdown = true
			} else if e.code == evSdReturn {
				inShutdown = false
			}
			continue
		}
		seg = append(seg, e)
	}
	flush(seg)
	return out
}

// ---------------------------------------------------------------------------------------------

func lcFixedScripts() [][]lcOp {
	return [][]lcOp{
		{{opConnect, 0, 0}, {opSend, 0, hNormal}, {opShutdown, 0, 0}},
		{{opConnect, 0, 0}, {opConnect, 1, 0}, {opSend, 0, hNormal}, {opSend, 1, hError}, {opDisconnect, 0, 0}, {opConnect, 2, 0}, {opSend, 2, hSleep}, {opCancel, 0, 0}},
		{{opConnect, 0, 1}, {opConnect, 1, 0}, {opSend, 1, hNormal}, {opDisconnect, 1, 0}, {opConnect, 2, 1}, {opShutdown, 0, 0}},
		{{opConnect, 0, 0}, {opSend, 0, hBlock}, {opShutdownAsync, 0, 0}, {opRelease, 0, 0}, {opAwaitShutdown, 0, 0}},
		{{opConnect, 0, 0}, {opConnect, 1, 0}, {opSend, 1, hBlock}, {opShutdownShortCtx, 0, 0}, {opRelease, 0, 0}, {opSend, 1, hNormal}, {opDisconnect, 1, 0}},
		{{opConnect, 0, 0}, {opSend, 0, hPanic}, {opConnect, 1, 0}, {opSend, 1, hNormal}, {opShutdown, 0, 0}},
		{{opConnect, 0, 0}, {opGarbage, 0, 0}, {opConnect, 1, 0}, {opPipelined, 1, 0}, {opCancel, 0, 0}},
		{{opConnect, 0, 0}, {opPartial, 0, 0}, {opRest, 0, 0}, {opShutdown, 0, 0}, {opConnectRefused, 1, 0}, {opShutdownAgain, 0, 0}},
		{{opConnect, 0, 0}, {opSend, 0, hNormal}, {opConnectCancel, 1, 0}},
		{{opConnect, 0, 0}, {opSend, 0, hNormal}, {opConnectHeld, 1, 0}, {opShutdown, 0, 0}, {opUnhold, 0, 0}, {opSend, 1, hNormal}, {opDisconnect, 1, 0}},
		{{opShutdownFresh, 0, 0}, {opConnect, 0, 0}, {opSend, 0, hNormal}, {opCancel, 0, 0}},
		{{opConnect, 0, 0}, {opPeerReset, 0, 0}, {opConnect, 1, 0}, {opSend, 1, hError}, {opSend, 1, hSleep}, {opDisconnect, 1, 0}, {opCancel, 0, 0}},
		{{opCancel, 0, 0}},
		{{opShutdown, 0, 0}},
		{{opConnect, 0, 0}, {opSend, 0, hBlock}, {opCancel, 0, 0}, {opRelease, 0, 0}},
		{{opConnect, 0, 0}, {opConnect, 1, 0}, {opConnect, 2, 0}, {opSend, 1, hBlock}, {opSend, 2, hBlock}, {opShutdownAsync, 0, 0}, {opRelease, 0, 0}, {opAwaitShutdown, 0, 0}, {opConnectRefused, 3, 0}},
		{{opConnect, 0, 0}, {opPartial, 0, 0}, {opShutdown, 0, 0}},
		{{opConnect, 0, 0}, {opConnectHeld, 1, 0}, {opCancel, 0, 0}, {opUnhold, 0, 0}},
		// slow reader: Shutdown while the reply write is in progress / while the handler still runs
		{{opConnect, 0, 0}, {opSendSlow, 0, hNormal}, {opShutdownAsync, 0, 0}, {opResumeRead, 0, 0}, {opAwaitShutdown, 0, 0}},
		{{opConnect, 0, 0}, {opConnect, 1, 0}, {opSendSlow, 0, hBlock}, {opShutdownAsync, 0, 0}, {opRelease, 0, 0}, {opResumeRead, 0, 0}, {opAwaitShutdown, 0, 0}},
		// connections queued back-to-back before Serve starts, accept callback with a limit
		{{opBurst, 5, 3}, {opSend, 0, hNormal}, {opDisconnect, 1, 0}, {opConnect, 5, 0}, {opConnect, 6, 0}, {opCancel, 0, 0}},
		{{opBurst, 4, 0}, {opSend, 3, hNormal}, {opShutdown, 0, 0}},
		{{opBurst, 6, 2}, {opShutdown, 0, 0}, {opConnectRefused, 6, 0}},
		// Shutdown after cancel
		{{opConnect, 0, 0}, {opCancel, 0, 0}, {opShutdown, 0, 0}},
		// a first Shutdown gives up (short context) while a handler is in flight, the caller retries
		{{opConnect, 0, 0}, {opConnect, 1, 0}, {opSend, 1, hBlock}, {opShutdownShortCtx, 0, 0}, {opShutdownAsync, 0, 0}, {opRelease, 0, 0}, {opAwaitShutdown, 0, 0}},
		// Close() returning an error: rejected connection, goroutine cleanup, serve's drop paths
		{{opConnect, 0, 3}, {opConnect, 1, 2}, {opSend, 1, hNormal}, {opDisconnect, 1, 0}, {opConnect, 2, 2}, {opConnectHeld, 3, 2}, {opShutdown, 0, 0}, {opUnhold, 0, 0}},
		{{opConnect, 0, 2}, {opConnect, 1, 3}, {opConnectCancel, 2, 2}},
		// a handler in flight when Shutdown is called, and the connection then ends while still in state
		// handling: the handler panics / the reply write fails because the client has gone
		{{opConnect, 0, 0}, {opSend, 0, hBlockPanic}, {opShutdownAsync, 0, 0}, {opRelease, 0, 0}, {opAwaitShutdown, 0, 0}},
		{{opConnect, 0, 0}, {opConnect, 1, 0}, {opSend, 0, hBlock}, {opShutdownAsync, 0, 0}, {opClientGone, 0, 0}, {opRelease, 0, 0}, {opAwaitShutdown, 0, 0}},
		// the next client is dialled from inside the close callback of the previous one
		{{opConnect, 0, 0}, {opConnect, 1, 0}, {opSend, 1, hNormal}, {opDisconnectDial, 0, 2}, {opSend, 2, hNormal}, {opDisconnectDial, 1, 3}, {opDisconnectDial, 2, 4}, {opShutdown, 0, 0}},
		// Shutdown in serve's start-up window
		{{opShutdownInServe, 0, 0}, {opConnectRefused, 0, 0}},
		// cancel while a reply write is in progress
		{{opConnect, 0, 0}, {opSendSlow, 0, hNormal}, {opCancel, 0, 0}, {opResumeRead, 0, 0}},
	}
}

// lcRandomScript draws a script: K clients connecting, sending, idling, disconnecting; shutdown or
// cancellation at a random point; handlers of varying duration
func lcRandomScript(g *rng) []lcOp {
	n := 3 + g.intn(10)
	var s []lcOp
	next := 0
	stopAt := g.intn(n + 2)
	for i := 0; i < n; i++ {
		k0 := 0
		if next > 0 {
			k0 = g.intn(next)
		}
		if i == stopAt {
			switch g.intn(5) {
			case 0:
				s = append(s, lcOp{opCancel, 0, 0})
			case 1:
				s = append(s, lcOp{opRelease, 0, 0}, lcOp{opShutdown, 0, 0})
			case 2:
				s = append(s, lcOp{opShutdownAsync, 0, 0}, lcOp{opRelease, 0, 0}, lcOp{opResumeRead, k0, 0}, lcOp{opAwaitShutdown, 0, 0})
			case 3:
				s = append(s, lcOp{opShutdownShortCtx, 0, 0})
			case 4:
				s = append(s, lcOp{opConnectCancel, next, 0})
				next++
			}
			continue
		}
		k := 0
		if next > 0 {
			k = g.intn(next)
		}
		switch g.intn(12) {
		case 0, 1, 2:
			rej := 0
			if g.intn(4) == 0 {
				rej = 1
			}
			if g.intn(4) == 0 {
				rej |= 2
			}
			s = append(s, lcOp{opConnect, next, rej})
			next++
		case 3, 4:
			s = append(s, lcOp{opSend, k, g.pick([]int{hNormal, hNormal, hError, hSleep, hBlock, hPanic, hBlockPanic})})
		case 5:
			s = append(s, lcOp{g.pick([]int{opSend, opSendSlow, opResumeRead}), k, g.pick([]int{hNormal, hBlock})})
		case 6:
			s = append(s, lcOp{opDisconnect, k, 0})
		case 7:
			s = append(s, lcOp{opPipelined, k, 0})
		case 8:
			s = append(s, lcOp{opPartial, k, 0})
		case 9:
			s = append(s, lcOp{opRest, k, 0})
		case 10:
			if g.bool() {
				s = append(s, lcOp{opRelease, 0, 0})
			} else if g.bool() {
				s = append(s, lcOp{opClientGone, k, 0})
			} else {
				s = append(s, lcOp{opDisconnectDial, k, next})
				next++
			}
		case 11:
			s = append(s, lcOp{g.pick([]int{opGarbage, opPeerReset}), k, 0})
		}
	}
	return s
}

// lcWithWriteTimeout puts the run's Server.WriteTimeout in front of the script: 10 ms (every handler that
// sleeps or blocks takes longer than that), in every fourth run the server's default of 50 ms (with
// handlers of 60 ms), and one minute for the scripts with a slow reader, whose Write is meant to block
func lcWithWriteTimeout(sc []lcOp, n int) []lcOp {
	ms := 10
	if n%4 == 3 {
		ms = 0
	}
	for _, o := range sc {
		if o.op == opSendSlow {
			ms = 60000
		}
	}
	return append([]lcOp{{opWriteTimeout, ms, 0}}, sc...)
}

// Stream "lifecycle_reserve": the same Server value served twice.  The first Serve is ended by cancelling
// its context while a connection of it is still alive (a handler in flight, or an idle connection in a
// long Read); Serve is called again on a new listener (event 18, the LTS step LReServe); then Shutdown.
// The runs are replayed through the LTS like those of "lifecycle" and judged by verdict_lifecycle_C17.
func init() {
	streams["lifecycle_reserve"] = func(seed uint64, thorough bool) {
		log.SetOutput(lcLogWriter{})
		log.SetFlags(0)
		scripts := [][]lcOp{
			{{opWriteTimeout, 60000, 0}, {opConnect, 0, 0}, {opSend, 0, hBlock}, {opCancel, 0, 0}, {opReserve, 0, 0}, {opShutdownAsync, 0, 0}, {opRelease, 0, 0}, {opAwaitShutdown, 0, 0}},
			{{opWriteTimeout, 60000, 0}, {opLongRead, 0, 0}, {opConnect, 0, 0}, {opSend, 0, hNormal}, {opCancel, 0, 0}, {opReserve, 0, 0}, {opConnect, 1, 0}, {opSend, 1, hNormal}, {opShutdown, 0, 0}},
			{{opWriteTimeout, 60000, 0}, {opLongRead, 0, 0}, {opConnect, 0, 0}, {opConnect, 1, 0}, {opSend, 1, hBlock}, {opCancel, 0, 0}, {opReserve, 0, 0}, {opShutdownAsync, 0, 0}, {opRelease, 0, 0}, {opAwaitShutdown, 0, 0}},
		}
		type rres struct {
			evs []lcEvent
			x   [3]int
			sum V
		}
		res := make([]rres, 16*len(scripts))
		var wg sync.WaitGroup
		for cfg := 0; cfg < 16; cfg++ {
			for i, sc := range scripts {
				wg.Add(1)
				go func(n, cfg int, sc []lcOp) {
					defer wg.Done()
					evs, x, sum := runLifecycle(cfg, sc)
					res[n] = rres{evs, x, sum}
				}(cfg*len(scripts)+i, cfg, sc)
			}
		}
		wg.Wait()
		for cfg := 0; cfg < 16; cfg++ {
			for i, sc := range scripts {
				rr := res[cfg*len(scripts)+i]
				var scv, ev []V
				for _, o := range sc {
					scv = append(scv, L(I(o.op), I(o.cl), I(o.arg)))
				}
				for _, e := range rr.evs {
					ev = append(ev, L(I(e.code), I(e.c), I(e.a), I(e.b)))
				}
				emit("lifecycle_reserve", L(I(cfg), L(scv...), L(ev...), L(I(rr.x[0]), I(rr.x[1]), I(rr.x[2])), rr.sum), vOk(rr.sum))
			}
		}
	}
}

func init() {
	streams["lifecycle"] = func(seed uint64, thorough bool) {
		g := newRng(seed ^ 0x17c17)
		log.SetOutput(lcLogWriter{}) // the server's default onErrorFunc logs through the standard logger
		log.SetFlags(0)
		type job struct {
			cfg    int
			script []lcOp
		}
		var jobs []job
		nrand := 5
		if thorough {
			nrand = 6*10 + 18*9
		}
		for cfg := 0; cfg < 16; cfg++ {
			for _, sc := range lcFixedScripts() {
				jobs = append(jobs, job{cfg, lcWithWriteTimeout(sc, len(jobs))})
			}
			for i := 0; i < nrand; i++ {
				jobs = append(jobs, job{cfg, lcWithWriteTimeout(lcRandomScript(g), len(jobs))})
			}
		}
		type res struct {
			evs   []lcEvent
			extra [3]int
			sum   V
		}
		results := make([]res, len(jobs))
		var wg sync.WaitGroup
		sem := make(chan struct{}, 24)
		for i := range jobs {
			wg.Add(1)
			sem <- struct{}{}
			go func(i int) {
				defer wg.Done()
				defer func() { <-sem }()
				evs, extra, sum := runLifecycle(jobs[i].cfg, jobs[i].script)
				results[i] = res{evs, extra, sum}
			}(i)
		}
		wg.Wait()
		for i, j := range jobs {
			var sc, ev []V
			for _, o := range j.script {
				sc = append(sc, L(I(o.op), I(o.cl), I(o.arg)))
			}
			for _, e := range results[i].evs {
				ev = append(ev, L(I(e.code), I(e.c), I(e.a), I(e.b)))
			}
			x := results[i].extra
			emit("lifecycle", L(I(j.cfg), L(sc...), L(ev...), L(I(x[0]), I(x[1]), I(x[2]))), vOk(results[i].sum))
		}
	}
}
