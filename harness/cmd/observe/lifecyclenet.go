package main

// In-memory net.Listener / net.Conn and the event log used by the life-cycle stream (C17).
// Every server-side I/O call on a connection is an observable of the LTS in coq/LifecycleModel.v;
// the event codes are those of coq/DispLifecycle.v (parse_event).

import (
	"fmt"
	"io"
	"net"
	"os"
	"runtime"
	"strings"
	"sync"
	"sync/atomic"
	"time"
)

const (
	evServeCb      = 1
	evAccept       = 2
	evAcceptCb     = 3
	evConnClose    = 4
	evServeReturn  = 5
	evRead         = 6
	evHandlerStart = 7
	evHandlerEnd   = 8
	evWrite        = 9
	evErrCb        = 10
	evCloseCb      = 11
	evSdCall       = 12
	evSdReturn     = 13
	evCancel       = 14
	evClientRecv   = 15
	evClientClosed = 16
	evDefLog       = 17
	evReServe      = 18
)

type lcEvent struct {
	code, c, a, b int
	script        bool // logged by the script thread: a barrier for canonicalisation
}

// lcWorld is the shared state of one run: the log and everything the script waits on.
type lcWorld struct {
	mu       sync.Mutex
	cond     *sync.Cond
	events   []lcEvent
	conns    []*lcMemConn // by connection number (order in which Accept handed them out)
	failed   []string     // harness-level problems (timeouts while waiting)
	sdGID    uint64       // goroutine currently running Shutdown (its Close calls are Shutdown's)
	cancelFn func()       // cancels the serve context
	id       int          // run number (part of every error text, so that log lines can be attributed)
}

// curGID returns the number of the calling goroutine (only used to tell Shutdown's Close calls from
// the connection goroutine's own when waiting for a connection to be finished)
func curGID() uint64 {
	var buf [64]byte
	n := runtime.Stack(buf[:], false)
	var id uint64
	for _, ch := range buf[len("goroutine "):n] {
		if ch < '0' || ch > '9' {
			break
		}
		id = id*10 + uint64(ch-'0')
	}
	return id
}

var lcWorlds sync.Map // run number -> *lcWorld, for the capture of the default logger
var lcWorldSeq atomic.Int64

func newWorld() *lcWorld {
	w := &lcWorld{id: int(lcWorldSeq.Add(1))}
	w.cond = sync.NewCond(&w.mu)
	lcWorlds.Store(w.id, w)
	return w
}

// lcLogWriter receives what the server's DEFAULT onErrorFunc prints through the standard logger (used
// when OnErrorFunc is unset) and records it as an event of the run it belongs to: the validator can
// then tell "OnErrorFunc called" (event 10) from "logged by default" (event 17)
type lcLogWriter struct{}

func (lcLogWriter) Write(p []byte) (int, error) {
	line := string(p)
	if i := strings.Index(line, "#r="); i >= 0 {
		run, id := -1, -1
		fmt.Sscanf(line[i:], "#r=%d#c=%d#", &run, &id)
		if v, ok := lcWorlds.Load(run); ok {
			w := v.(*lcWorld)
			w.mu.Lock()
			if id >= 0 && id < len(w.conns) {
				w.conns[id].errsSeen++
			}
			w.logLocked(lcEvent{code: evDefLog})
			w.mu.Unlock()
		}
	}
	return len(p), nil
}

// logLocked appends an event; the caller holds w.mu
func (w *lcWorld) logLocked(e lcEvent) {
	w.events = append(w.events, e)
	w.cond.Broadcast()
}

func (w *lcWorld) log(code, c, a, b int) {
	w.mu.Lock()
	w.logLocked(lcEvent{code: code, c: c, a: a, b: b})
	w.mu.Unlock()
}

func (w *lcWorld) logScript(code, c, a, b int) {
	w.mu.Lock()
	w.logLocked(lcEvent{code: code, c: c, a: a, b: b, script: true})
	w.mu.Unlock()
}

// waitFor blocks until pred (evaluated under w.mu) holds; the timeout is generous and only guards
// against a hung run (which is then reported, not silently passed)
func (w *lcWorld) waitFor(what string, pred func() bool) bool {
	limit := 20 * time.Second
	w.mu.Lock()
	if len(w.failed) > 0 {
		limit = 500 * time.Millisecond // the run has failed already: do not sit out every later wait in full
	}
	w.mu.Unlock()
	deadline := time.Now().Add(limit)
	t := time.AfterFunc(limit+10*time.Millisecond, func() {
		w.mu.Lock()
		w.cond.Broadcast()
		w.mu.Unlock()
	})
	defer t.Stop()
	w.mu.Lock()
	defer w.mu.Unlock()
	for !pred() {
		if time.Now().After(deadline) {
			w.failed = append(w.failed, what)
			return false
		}
		w.cond.Wait()
	}
	return true
}

func (w *lcWorld) countLocked(code, c int) int {
	n := 0
	for _, e := range w.events {
		if e.code == code && e.c == c {
			n++
		}
	}
	return n
}

// ---------------------------------------------------------------------------------------------

type lcMemAddr struct{ id int }

func (a lcMemAddr) Network() string { return "mem" }
func (a lcMemAddr) String() string  { return fmt.Sprintf("mem:%d", a.id) }

// memErr is the error of a closed in-memory connection / listener; carries the connection number
type memErr struct {
	run  int
	id   int
	what string
}

func (e memErr) Error() string { return fmt.Sprintf("memconn #r=%d#c=%d# %s", e.run, e.id, e.what) }

// lcMemConn is the server side of an in-memory connection; the client side are the methods cl*.
type lcMemConn struct {
	w  *lcWorld
	id int

	// guarded by w.mu
	toServer       [][]byte // chunks written by the client, not yet read by the server
	toClient       []byte   // bytes written by the server, not yet consumed by the client
	clientClosed   bool     // the client has closed its end
	srvClosed      bool     // the server has called Close
	closeCalls     int
	readCalls      int
	failWrites     bool // the peer has reset: server writes fail
	readDeadline   time.Time
	addrCalls      int
	addrHook       func(call int) // called (without w.mu) from RemoteAddr
	recvReplies    int            // replies to requests the client has read
	ownCloses      int            // Close calls that did not come from the goroutine running Shutdown
	rejectMe       bool           // the accept callback refuses this connection
	cancelMe       bool           // the accept callback cancels the serve context
	held           bool           // serve is being held inside RemoteAddr
	cancelAtAccept bool           // the listener cancels the serve context when handing this connection out
	slowRead       bool           // the client does not read: a server Write delivers half and blocks until resumed
	writeBlocked   bool           // a server Write is in progress (blocked on the client)
	resumes        int            // blocked writes the client has allowed to complete
	closeErr       bool           // the first Close returns an error
	writeExpired   bool           // the write deadline was already in the past when the server set it
	closeHook      func()         // run by the close callback of this connection (after it has been logged)
	errsExpected   int            // errors handed to the server that it reports through onErrorFunc
	errsSeen       int            // OnErrorFunc calls attributed to this connection
}

func (c *lcMemConn) Read(p []byte) (int, error) {
	w := c.w
	w.mu.Lock()
	c.readCalls++
	w.cond.Broadcast()
	var timer *time.Timer
	defer func() {
		if timer != nil {
			timer.Stop()
		}
	}()
	for {
		if c.srvClosed {
			w.logLocked(lcEvent{code: evRead, c: c.id, a: 3})
			c.errsExpected++
			w.mu.Unlock()
			return 0, memErr{c.w.id, c.id, "read on closed connection"}
		}
		if len(c.toServer) > 0 {
			chunk := c.toServer[0]
			n := copy(p, chunk)
			if n < len(chunk) {
				c.toServer[0] = chunk[n:]
			} else {
				c.toServer = c.toServer[1:]
			}
			w.logLocked(lcEvent{code: evRead, c: c.id, a: 0})
			w.mu.Unlock()
			return n, nil
		}
		if c.clientClosed {
			w.logLocked(lcEvent{code: evRead, c: c.id, a: 2})
			w.mu.Unlock()
			return 0, errEOF
		}
		dl := c.readDeadline
		if !dl.IsZero() {
			d := time.Until(dl)
			if d <= 0 {
				w.mu.Unlock()
				return 0, os.ErrDeadlineExceeded // timeouts are not logged (a no-op of the LTS)
			}
			if timer == nil {
				timer = time.AfterFunc(d, func() {
					w.mu.Lock()
					w.cond.Broadcast()
					w.mu.Unlock()
				})
			}
		}
		w.cond.Wait()
	}
}

func (c *lcMemConn) Write(p []byte) (int, error) {
	w := c.w
	w.mu.Lock()
	defer w.mu.Unlock()
	if c.srvClosed {
		w.logLocked(lcEvent{code: evWrite, c: c.id, a: 0})
		c.errsExpected++
		return 0, memErr{c.w.id, c.id, "write on closed connection"}
	}
	if c.failWrites || c.clientClosed {
		w.logLocked(lcEvent{code: evWrite, c: c.id, a: 0, b: 1}) // b = 1: the peer's doing
		c.errsExpected++
		return 0, memErr{c.w.id, c.id, "connection reset by peer"}
	}
	if c.writeExpired {
		w.logLocked(lcEvent{code: evWrite, c: c.id, a: 0, b: 2}) // b = 2: the write deadline had passed when it was set
		c.errsExpected++
		return 0, memErr{c.w.id, c.id, "write: i/o timeout (deadline exceeded)"}
	}
	if c.slowRead {
		// zero buffering: the first half is taken, the rest waits for the client to read on
		half := len(p) / 2
		c.toClient = append(c.toClient, p[:half]...)
		c.writeBlocked = true
		w.cond.Broadcast()
		for c.resumes == 0 && !c.srvClosed {
			w.cond.Wait()
		}
		c.writeBlocked = false
		if c.resumes == 0 {
			w.logLocked(lcEvent{code: evWrite, c: c.id, a: 0})
			c.errsExpected++
			return half, memErr{c.w.id, c.id, "write on closed connection"}
		}
		c.resumes--
		c.toClient = append(c.toClient, p[half:]...)
		w.logLocked(lcEvent{code: evWrite, c: c.id, a: 1})
		return len(p), nil
	}
	c.toClient = append(c.toClient, p...)
	w.logLocked(lcEvent{code: evWrite, c: c.id, a: 1})
	return len(p), nil
}

func (c *lcMemConn) Close() error {
	w := c.w
	w.mu.Lock()
	defer w.mu.Unlock()
	c.closeCalls++
	own := curGID() != w.sdGID
	if own {
		c.ownCloses++
	}
	w.logLocked(lcEvent{code: evConnClose, c: c.id})
	if c.srvClosed {
		if own {
			c.errsExpected++ // Shutdown ignores the error of its Close, everybody else reports it
		}
		return memErr{c.w.id, c.id, "close of closed connection"} // as net.Conn does
	}
	c.srvClosed = true
	w.cond.Broadcast()
	if c.closeErr {
		// the socket is closed but Close reports an error (on demand)
		if own {
			c.errsExpected++
		}
		return memErr{c.w.id, c.id, "close failed"}
	}
	return nil
}

func (c *lcMemConn) LocalAddr() net.Addr { return lcMemAddr{-1} }
func (c *lcMemConn) RemoteAddr() net.Addr {
	c.w.mu.Lock()
	c.addrCalls++
	n := c.addrCalls
	h := c.addrHook
	c.w.mu.Unlock()
	if h != nil {
		h(n)
	}
	return lcMemAddr{c.id}
}
func (c *lcMemConn) SetDeadline(t time.Time) error { return c.SetReadDeadline(t) }
func (c *lcMemConn) SetReadDeadline(t time.Time) error {
	c.w.mu.Lock()
	c.readDeadline = t
	c.w.mu.Unlock()
	return nil
}

// SetWriteDeadline is honoured in the one way that does not depend on how fast the goroutines of the
// test happen to be scheduled: a deadline that has ALREADY passed when it is set makes the next Write fail
// with a timeout and write nothing (a deadline in the future can only expire on a Write that blocks on
// a slow reader, which the scripts resume long before)
func (c *lcMemConn) SetWriteDeadline(t time.Time) error {
	c.w.mu.Lock()
	c.writeExpired = !t.IsZero() && !t.After(time.Now())
	c.w.mu.Unlock()
	return nil
}

var errEOF = io.EOF

// ---- client side ----

func (c *lcMemConn) clSend(p []byte) {
	c.w.mu.Lock()
	c.toServer = append(c.toServer, append([]byte(nil), p...))
	c.w.cond.Broadcast()
	c.w.mu.Unlock()
}

func (c *lcMemConn) clClose() {
	c.w.mu.Lock()
	c.clientClosed = true
	c.w.cond.Broadcast()
	c.w.mu.Unlock()
}

// clTakeFrames consumes complete Modbus TCP frames from what the server wrote (caller holds w.mu)
func (c *lcMemConn) clTakeFramesLocked() [][]byte {
	var fs [][]byte
	for len(c.toClient) >= 6 {
		n := 6 + int(c.toClient[4])<<8 + int(c.toClient[5])
		if len(c.toClient) < n {
			break
		}
		fs = append(fs, append([]byte(nil), c.toClient[:n]...))
		c.toClient = c.toClient[n:]
	}
	return fs
}

// ---------------------------------------------------------------------------------------------

// memListener hands out in-memory connections; Close unblocks Accept with an error.
type memListener struct {
	w *lcWorld
	// guarded by w.mu
	pending   []*lcMemConn
	closed    bool
	accepting int // number of goroutines blocked in Accept
	accepts   int // number of Accept calls so far
}

func (l *memListener) Accept() (net.Conn, error) {
	w := l.w
	w.mu.Lock()
	defer w.mu.Unlock()
	l.accepts++
	l.accepting++
	w.cond.Broadcast()
	defer func() { l.accepting-- }()
	for {
		if l.closed {
			return nil, memErr{l.w.id, -1, "listener closed"}
		}
		if len(l.pending) > 0 {
			c := l.pending[0]
			l.pending = l.pending[1:]
			c.id = len(w.conns)
			w.conns = append(w.conns, c)
			w.logLocked(lcEvent{code: evAccept, c: c.id})
			if c.cancelAtAccept && w.cancelFn != nil {
				// the serve context is cancelled at the moment the connection is handed out
				w.cancelFn()
				w.logLocked(lcEvent{code: evCancel, script: true})
			}
			return c, nil
		}
		w.cond.Wait()
	}
}

func (l *memListener) Close() error {
	w := l.w
	w.mu.Lock()
	defer w.mu.Unlock()
	if l.closed {
		return memErr{l.w.id, -1, "listener already closed"} // as net.TCPListener does
	}
	l.closed = true
	w.cond.Broadcast()
	return nil
}

func (l *memListener) Addr() net.Addr { return lcMemAddr{-1} }

// dial queues a connection and waits until Accept has handed it out (-> its number) or the listener
// is closed (-> refused)
func (l *memListener) dial(prep func(c *lcMemConn)) (*lcMemConn, bool) {
	w := l.w
	c := &lcMemConn{w: w, id: -1}
	if prep != nil {
		prep(c)
	}
	w.mu.Lock()
	if l.closed {
		w.mu.Unlock()
		return nil, false
	}
	l.pending = append(l.pending, c)
	w.cond.Broadcast()
	w.mu.Unlock()
	ok := w.waitFor("dial", func() bool { return c.id >= 0 || l.closed })
	w.mu.Lock()
	defer w.mu.Unlock()
	if !ok || c.id < 0 {
		// remove from the queue
		for i, p := range l.pending {
			if p == c {
				l.pending = append(l.pending[:i], l.pending[i+1:]...)
				break
			}
		}
		return nil, false
	}
	return c, true
}
