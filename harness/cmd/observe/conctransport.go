package main

// In-memory transport of the C14 supporting run (stream "conc").  It is a net.Conn and an
// io.ReadWriteCloser.  It records every byte written, in the order the bytes arrive (a Write hands
// its bytes over one by one and yields between them, so two overlapping Writes show up as
// interleaved bytes in the log), splits the stream into requests, and answers them in arrival
// order with a reply derived from the request (coq/DispConc.v: conc_reply describes the same
// device).  A Read hands out the next unread reply as a whole.
// It also records whether the library ever had two calls inside the same transport object at the
// same time (Read / Write / Close / Flush / Set*Deadline), and whether a Close arrived between the
// write of a request and the read of its reply: the client must carry out its exchanges and its
// Close one at a time (C14_steps_by_holder / C14_one_at_a_time).

import (
	"bytes"
	"encoding/binary"
	"net"
	"os"
	"runtime"
	"sync"
	"sync/atomic"
	"time"

	"github.com/aldas/go-modbus-client/packet"
)

type memConn struct {
	kind    int           // 0 = Modbus TCP framing, otherwise RTU framing
	latency time.Duration // a reply can be read this long after its request was written (slow device)
	// how long a Read blocks when nothing can be read (default 0.5 ms = the network client's own
	// per-read deadline; a serial port opened with a long read time-out blocks much longer)
	blockRead time.Duration
	// number of Do calls in progress on the client of this case (maintained by the harness)
	inDo *int32

	mu      sync.Mutex  // protects the recorder itself, not the client under test
	log     []byte      // every byte written, in arrival order
	pending []byte      // bytes not yet split into a request
	replies [][]byte    // answers not yet read
	readyAt []time.Time // when each of them becomes readable
	blocks  []bool      // a Read waits for this one however long it takes (scripted late completion)
	// units 97 (brink): the reply comes in two parts, the completing Read returns only when
	// brinkAfter (the client's read time-out + 2 ms) has passed since the request was written
	brinkAfter time.Duration
	closed     bool

	// calls made by the LIBRARY on this transport object (Read, Write, Close, Flush, Set*Deadline)
	active   int // calls currently inside
	overlaps int // a call entered while another one was inside: access to the transport not serialised
	midClose int // Close entered between the write of a request and the read of its reply
	// a Read / Write / Flush / Set*Deadline call was inside the transport while no Do call was in
	// progress on the client: a call abandoned by its caller left work behind on the port
	outsideDo int
}

// enter / exit bracket every library call; the yields let a second caller in, should the client
// not exclude it, so that an overlap shows up as one
func (c *memConn) enter(isClose bool) {
	c.mu.Lock()
	if c.active > 0 {
		c.overlaps++
	}
	c.active++
	// a Close between the write of a request and the read of its reply, of a Do that is in progress
	// (what an abandoned call left unread does not make a later Close "mid-exchange")
	if isClose && (len(c.replies) > 0 || len(c.pending) > 0) && (c.inDo == nil || atomic.LoadInt32(c.inDo) > 0) {
		c.midClose++
	}
	if !isClose && c.inDo != nil && atomic.LoadInt32(c.inDo) == 0 {
		c.outsideDo++
	}
	c.mu.Unlock()
	runtime.Gosched()
}

func (c *memConn) exit() {
	runtime.Gosched()
	c.mu.Lock()
	c.active--
	c.mu.Unlock()
}

func crc16le(b []byte) []byte {
	c := packet.CRC16(b)
	return []byte{byte(c), byte(c >> 8)}
}

// reply PDU to a request PDU
func concReplyPDU(pdu []byte) []byte {
	if len(pdu) == 0 {
		return nil
	}
	fc := pdu[0]
	if len(pdu) < 5 {
		return []byte{fc + 128, 1}
	}
	addr := binary.BigEndian.Uint16(pdu[1:3])
	x := binary.BigEndian.Uint16(pdu[3:5])
	switch fc {
	case 3, 4:
		out := []byte{fc, byte(2 * x)}
		for i := uint16(0); i < x; i++ {
			out = binary.BigEndian.AppendUint16(out, addr+i)
		}
		return out
	case 1, 2:
		nb := (int(x) + 7) / 8
		out := []byte{fc, byte(nb)}
		for i := 0; i < nb; i++ {
			out = append(out, pdu[2])
		}
		return out
	case 5, 6, 16:
		return append([]byte{}, pdu[0:5]...)
	}
	return []byte{fc + 128, 1}
}

func concReply(kind int, req []byte) []byte {
	if kind == 0 {
		if len(req) < 7 {
			return nil
		}
		r := concReplyPDU(req[7:])
		out := append([]byte{}, req[0:4]...)
		out = binary.BigEndian.AppendUint16(out, uint16(1+len(r)))
		out = append(out, req[6])
		return append(out, r...)
	}
	if len(req) < 3 {
		return nil
	}
	body := append([]byte{req[0]}, concReplyPDU(req[1:len(req)-2])...)
	return append(body, crc16le(body)...)
}

// special units of the device
const (
	concSilentUnit = 99 // switched off: requests are received and never answered
	concLongUnit   = 98 // answers with 265 bytes, more than a Modbus frame can have
	concBrinkUnit  = 97 // completes its reply just after the client's read time-out
	concPanicUnit  = 96 // the recording hook panics on requests to it (nothing reaches the device)
)

func concUnit(kind int, req []byte) int {
	if kind == 0 {
		if len(req) > 6 {
			return int(req[6])
		}
		return -1
	}
	if len(req) > 0 {
		return int(req[0])
	}
	return -1
}

// length of the first request in the stream, 0 if it is not complete yet
func concFrameLen(kind int, w []byte) int {
	if kind == 0 {
		if len(w) < 6 {
			return 0
		}
		n := 6 + int(binary.BigEndian.Uint16(w[4:6]))
		if len(w) < n {
			return 0
		}
		return n
	}
	if len(w) < 7 {
		return 0
	}
	n := 8
	if w[1] == 16 {
		n = 9 + int(w[6])
	}
	if len(w) < n {
		return 0
	}
	return n
}

func (c *memConn) Write(p []byte) (int, error) {
	c.enter(false)
	defer c.exit()
	c.mu.Lock()
	if c.closed {
		c.mu.Unlock()
		return 0, net.ErrClosed
	}
	c.mu.Unlock()
	for _, b := range p {
		c.mu.Lock()
		c.log = append(c.log, b)
		c.pending = append(c.pending, b)
		for {
			n := concFrameLen(c.kind, c.pending)
			if n == 0 {
				break
			}
			req := c.pending[:n]
			switch concUnit(c.kind, req) {
			case concSilentUnit: // a unit that is switched off never answers
			case concLongUnit: // a unit that answers with more bytes than any Modbus frame can have
				c.push(bytes.Repeat([]byte{0x55}, 265), time.Now().Add(c.latency), false)
			case concBrinkUnit: // the reply is completed just after the client's read time-out
				r := concReply(c.kind, req)
				c.push(r[:3], time.Now(), false)
				c.push(r[3:], time.Now().Add(c.brinkAfter), true)
			default:
				c.push(concReply(c.kind, req), time.Now().Add(c.latency), false)
			}
			c.pending = append([]byte{}, c.pending[n:]...)
		}
		c.mu.Unlock()
		runtime.Gosched() // let another goroutine in, should the client not exclude it
	}
	return len(p), nil
}

func (c *memConn) push(r []byte, at time.Time, block bool) {
	c.replies = append(c.replies, r)
	c.readyAt = append(c.readyAt, at)
	c.blocks = append(c.blocks, block)
}

func (c *memConn) pop() []byte {
	r := c.replies[0]
	c.replies, c.readyAt, c.blocks = c.replies[1:], c.readyAt[1:], c.blocks[1:]
	return r
}

func (c *memConn) Read(p []byte) (int, error) {
	c.enter(false)
	defer c.exit()
	block := c.blockRead
	if block == 0 {
		block = 500 * time.Microsecond
	}
	deadline := time.Now().Add(block)
	orphan := false
	for {
		c.mu.Lock()
		if c.inDo != nil && atomic.LoadInt32(c.inDo) == 0 && !orphan {
			orphan = true // still reading although the Do that started this Read has returned
			c.outsideDo++
		}
		if c.closed {
			c.mu.Unlock()
			return 0, net.ErrClosed
		}
		if len(c.replies) > 0 && !time.Now().Before(c.readyAt[0]) {
			r := c.pop()
			c.mu.Unlock()
			return copy(p, r), nil
		}
		mustWait := len(c.replies) > 0 && c.blocks[0]
		c.mu.Unlock()
		left := time.Until(deadline)
		if mustWait && left < 500*time.Microsecond {
			left = 500 * time.Microsecond // the scripted Read does not return before its data is there
		}
		if left <= 0 {
			return 0, os.ErrDeadlineExceeded
		}
		if left > 500*time.Microsecond {
			left = 500 * time.Microsecond
		}
		time.Sleep(left) // nothing to read yet: block
	}
}

// Close also drops what the device had queued (a request in flight loses its reply)
func (c *memConn) Close() error {
	c.enter(true)
	defer c.exit()
	c.mu.Lock()
	defer c.mu.Unlock()
	c.closed = true
	c.replies, c.readyAt, c.blocks = nil, nil, nil
	c.pending = nil
	return nil
}

// Flush makes the transport a modbus.Flusher (exercised by the serial client)
func (c *memConn) Flush() error {
	c.enter(false)
	defer c.exit()
	c.mu.Lock()
	defer c.mu.Unlock()
	if c.closed {
		return net.ErrClosed
	}
	// discard the input that has arrived and was not read
	now := time.Now()
	for len(c.replies) > 0 && !now.Before(c.readyAt[0]) {
		c.pop()
	}
	return nil
}

// reopen is called by the HARNESS (the operator plugging the serial device in again), not by the
// library: it only makes the port usable again
func (c *memConn) reopen() {
	c.mu.Lock()
	c.closed = false
	c.mu.Unlock()
}

func (c *memConn) deadline() error {
	c.enter(false)
	defer c.exit()
	c.mu.Lock()
	defer c.mu.Unlock()
	if c.closed {
		return net.ErrClosed
	}
	return nil
}

type memAddr struct{}

func (memAddr) Network() string { return "mem" }
func (memAddr) String() string  { return "mem" }

func (c *memConn) LocalAddr() net.Addr                { return memAddr{} }
func (c *memConn) RemoteAddr() net.Addr               { return memAddr{} }
func (c *memConn) SetDeadline(t time.Time) error      { return c.deadline() }
func (c *memConn) SetReadDeadline(t time.Time) error  { return c.deadline() }
func (c *memConn) SetWriteDeadline(t time.Time) error { return c.deadline() }

func (c *memConn) snapshot() (log []byte, overlaps, midClose, outsideDo int, closed bool) {
	c.mu.Lock()
	defer c.mu.Unlock()
	return append([]byte{}, c.log...), c.overlaps, c.midClose, c.outsideDo, c.closed
}
