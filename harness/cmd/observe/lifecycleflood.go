package main

// Stream "lifecycle_flood" (C17): Server.Shutdown under a flood of pipelined requests.
// Before fix fb6684d the fall-through in Shutdown was
//   `if !c.state.CompareAndSwap(connIdle, connClosed) && c.state.Load() == connHandling { wait }`:
// when the CAS failed (handling) and the Load that followed saw idle, the connection was closed
// without a CAS while the next request could already be inside its handler -- that reply was lost
// although Shutdown returned nil (former known finding 168; this stream found it in 1-18 of 60 runs).
// The window is a few nanoseconds wide and cannot be forced through the net.Conn / net.Listener
// boundary, so this stream samples it: each case is one Shutdown call under flood; args = [try, result
// of Shutdown (0 nil / 3 ctx / 2 other), handlers started - replies written, writes that failed on
// the connection the server had closed].  By C17_shutdown_replies_complete the LTS loses no reply, so
// a lossy run with Shutdown returning nil is a violation.

import (
	"context"
	"errors"
	"io"
	"log"
	"net"
	"sync"
	"sync/atomic"
	"time"

	"github.com/aldas/go-modbus-client/packet"
	"github.com/aldas/go-modbus-client/server"
)

type flConn struct {
	closed    atomic.Bool
	started   atomic.Int64
	written   atomic.Int64
	lostAfter atomic.Int64
	tid       uint16
}

func (f *flConn) Read(p []byte) (int, error) {
	if f.closed.Load() {
		return 0, errors.New("closed")
	}
	f.tid++
	return copy(p, []byte{byte(f.tid >> 8), byte(f.tid), 0, 0, 0, 6, 1, 3, 0, 0, 0, 1}), nil
}
func (f *flConn) Write(p []byte) (int, error) {
	if f.closed.Load() {
		f.lostAfter.Add(1)
		return 0, errors.New("closed")
	}
	f.written.Add(1)
	return len(p), nil
}
func (f *flConn) Close() error                       { f.closed.Store(true); return nil }
func (f *flConn) LocalAddr() net.Addr                { return lcMemAddr{-1} }
func (f *flConn) RemoteAddr() net.Addr               { return lcMemAddr{0} }
func (f *flConn) SetDeadline(t time.Time) error      { return nil }
func (f *flConn) SetReadDeadline(t time.Time) error  { return nil }
func (f *flConn) SetWriteDeadline(t time.Time) error { return nil }

type flListener struct {
	c    chan net.Conn
	done chan struct{}
	once sync.Once
}

func (l *flListener) Accept() (net.Conn, error) {
	select {
	case c := <-l.c:
		return c, nil
	case <-l.done:
		return nil, errors.New("closed")
	}
}
func (l *flListener) Close() error   { l.once.Do(func() { close(l.done) }); return nil }
func (l *flListener) Addr() net.Addr { return lcMemAddr{-1} }

type flHandler struct{ f *flConn }

func (h flHandler) Handle(ctx context.Context, req packet.Request) (packet.Response, error) {
	h.f.started.Add(1)
	b := req.Bytes()
	return lcResp{[]byte{b[0], b[1], 0, 0, 0, 5, 1, 3, 2, 0, 1}}, nil
}

func init() {
	streams["lifecycle_flood"] = func(seed uint64, thorough bool) {
		log.SetOutput(io.Discard)
		g := newRng(seed ^ 0xf100d)
		tries := 60
		if thorough {
			tries = 600
		}
		for i := 0; i < tries; i++ {
			f := &flConn{}
			l := &flListener{c: make(chan net.Conn, 1), done: make(chan struct{})}
			s := &server.Server{OnErrorFunc: func(error) {}}
			ret := make(chan error, 1)
			go func() { ret <- s.Serve(context.Background(), l, flHandler{f}) }()
			l.c <- f
			for f.started.Load() < 10 {
				time.Sleep(10 * time.Microsecond)
			}
			time.Sleep(time.Duration(g.intn(60)) * time.Microsecond)
			ctx, cancel := context.WithTimeout(context.Background(), 2*time.Second)
			code := errCode(s.Shutdown(ctx), nil)
			cancel()
			<-ret
			time.Sleep(300 * time.Microsecond) // the connection goroutine finishes its last write attempt
			// the absolute counts are scheduling noise; what is compared is the difference
			lost := f.started.Load() - f.written.Load()
			emit("lifecycle_flood", L(I(i), I(code), I(int(lost)), I(int(f.lostAfter.Load()))), vOk())
		}
	}
}
