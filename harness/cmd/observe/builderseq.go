package main

// Builder layer, property C13 (reading never changes the response) for field extraction: the
// "extract_seq" stream.  Register requests built by the builder from MIXED members (explicit
// byte orders next to default-order fields, overlapping fields, strings sharing registers with
// numbers, duplicates of a definition under another name); one reply of the conforming device per
// request; then on the SAME response object: ExtractFields strict / lenient twice, the same with a
// second BuilderRequest value that shares the packet but has its Fields reversed resp. rotated,
// and Field.ExtractFrom per member on ONE shared *packet.Registers in the original, the reversed
// and again the original order.  Outcome: every result list and the whole reply buffer before and
// after.

import (
	"strconv"

	modbus "github.com/aldas/go-modbus-client"
	"github.com/aldas/go-modbus-client/packet"
)

func init() {
	streams["extract_seq"] = streamExtractSeq
}

var explicitOrders = []uint8{1, 2, 4, 5, 6, 8, 9, 10, 3, 12}

// genMixedFields: one dense cluster on mostly one device
func genMixedFields(r *rng, sc fieldScenario, n int) []modbus.Field {
	fields := make([]modbus.Field, 0, n)
	base := uint16(r.intn(65000))
	switch r.intn(6) {
	case 0:
		base = 0
	case 1:
		base = uint16(65536 - 30)
	}
	for i := 0; i < n; i++ {
		if i > 0 && r.intn(6) == 0 { // the previous definition again, other name, maybe other order
			f := fields[i-1]
			f.Name = strconv.Itoa(i)
			if r.bool() {
				f.ByteOrder = packet.ByteOrder(explicitOrders[r.intn(len(explicitOrders))])
			}
			fields = append(fields, f)
			continue
		}
		f := modbus.Field{
			Name:          strconv.Itoa(i),
			ServerAddress: sc.servers[0],
			UnitID:        sc.units[0],
			Type:          modbus.FieldType(1 + r.intn(13)),
			Bit:           uint8(r.intn(16)),
			FromHighByte:  r.bool(),
			Address:       base + uint16(r.intn(14)),
		}
		if r.intn(8) == 0 {
			f.ServerAddress = sc.servers[r.intn(len(sc.servers))]
			f.UnitID = sc.units[r.intn(len(sc.units))]
		}
		if r.bool() {
			f.ByteOrder = packet.ByteOrder(explicitOrders[r.intn(len(explicitOrders))])
		}
		if f.Type == modbus.FieldTypeString {
			f.Length = uint8(1 + r.intn(16))
		}
		fields = append(fields, f)
	}
	return fields
}

// heldCall / heldMember keep what ExtractFields / Field.ExtractFrom returned without looking at
// the values
type heldCall struct {
	vals     []modbus.FieldValue
	err      error
	panicked bool
}

func (h *heldCall) run(q modbus.BuilderRequest, resp packet.Response, cont bool) {
	defer func() {
		if recover() != nil {
			h.panicked = true
		}
	}()
	h.vals, h.err = q.ExtractFields(resp, cont)
}
func (h *heldCall) proj(fields []modbus.Field) V {
	if h.panicked {
		return vPanic()
	}
	return projExtraction(fields, h.vals, h.err)
}

type heldMember struct {
	f        modbus.Field
	v        interface{}
	err      error
	panicked bool
}

func memberRaw(members []modbus.Field, regs *packet.Registers) []heldMember {
	out := make([]heldMember, len(members))
	for i, m := range members {
		out[i].f = m
		func() {
			defer func() {
				if recover() != nil {
					out[i].panicked = true
				}
			}()
			f := m
			out[i].v, out[i].err = f.ExtractFrom(regs)
		}()
	}
	return out
}
func memberProj(fields []modbus.Field, ms []heldMember) V {
	es := make([]V, 0, len(ms))
	for _, m := range ms {
		id := fieldID(fields, m.f)
		switch {
		case m.panicked:
			es = append(es, L(I(id), I(2)))
		case m.err != nil:
			es = append(es, L(I(id), I(1)))
		default:
			es = append(es, L(I(id), I(0), projFieldValue(m.v)))
		}
	}
	return vList(es)
}

// genLongStrings: 2..5 strings of 65..160 bytes (and one short one) on one device, close together
func genLongStrings(r *rng, sc fieldScenario) []modbus.Field {
	n := 2 + r.intn(4)
	base := uint16(r.intn(65000))
	fields := make([]modbus.Field, 0, n+1)
	for i := 0; i < n; i++ {
		f := mkField(i, sc.servers[0], sc.units[0], base+uint16(r.intn(30)), modbus.FieldTypeString, uint8(65+r.intn(96)))
		if r.intn(3) == 0 {
			f.Address = base + uint16(200*(1+r.intn(2))) // another request of the same device
		}
		f.ByteOrder = packet.ByteOrder([]uint8{0, 1, 2, 5, 6}[r.intn(5)])
		fields = append(fields, f)
	}
	return append(fields, mkField(n, sc.servers[0], sc.units[0], base+3, modbus.FieldTypeString, uint8(1+r.intn(20))))
}

// textSeed: a memory seed for which the device (server, unit) holds printable text (mem_word mode 0)
func textSeed(r *rng, server string, unit uint8) uint64 {
	for {
		ms := uint64(r.intn(65536))
		if devSeed(ms, server, unit)&3 == 0 {
			return ms
		}
	}
}

func reversedFields(fs modbus.Fields) modbus.Fields {
	out := make(modbus.Fields, len(fs))
	for i, f := range fs {
		out[len(fs)-1-i] = f
	}
	return out
}

func rotatedFields(fs modbus.Fields, rot int) modbus.Fields {
	if len(fs) == 0 {
		return modbus.Fields{}
	}
	k := rot % len(fs)
	out := make(modbus.Fields, 0, len(fs))
	out = append(out, fs[k:]...)
	return append(out, fs[:k]...)
}

func extractSeqCase(r *rng, target int, fields []modbus.Field, ms uint64, truncate bool, rot int) {
	var tids, ks []V
	outcome := guard(func() V {
		reqs, err := callBuilder(target, fields, false)
		if err != nil {
			return vErr(Bool(reqs == nil))
		}
		sortRequests(reqs)
		descs := make([]V, 0, len(reqs))
		for _, q := range reqs {
			tid, _ := projReq(q.Request)
			tids = append(tids, I(tid))
			bytes := q.Bytes()
			tcp := target%2 == 0
			seed := devSeed(ms, q.ServerAddress, q.UnitID)
			_, _, qty := deviceReply(tcp, seed, bytes, -1)
			k := -1
			if truncate && qty > 1 && r.bool() {
				k = 1 + r.intn(qty-1)
			}
			ks = append(ks, I(k))
			reply, s, qq := deviceReply(tcp, seed, bytes, k)
			before := append([]byte(nil), reply...)
			var resp packet.Response
			var perr error
			if tcp {
				resp, perr = packet.ParseTCPResponse(reply)
			} else {
				resp, perr = packet.ParseRTUResponseWithCRC(reply)
			}
			head := []V{S(q.ServerAddress), I(int(q.UnitID)), I(s), I(qq)}
			if perr != nil {
				descs = append(descs, vList(append(head, L(I(4)))))
				continue
			}
			qrev, qrot := q, q
			qrev.Fields = reversedFields(q.Fields)
			qrot.Fields = rotatedFields(q.Fields, rot)
			steps := []struct {
				req  modbus.BuilderRequest
				cont bool
			}{{q, false}, {q, true}, {q, false}, {q, true}, {qrev, false}, {qrev, true}, {qrot, false}, {qrot, true}}
			raws := make([]heldCall, len(steps))
			for j, st := range steps {
				raws[j].run(st.req, resp, st.cont)
			}
			var shared V
			var m1, m2, m3 []heldMember
			if rr, ok := resp.(modbus.RegistersResponse); !ok {
				shared = L(I(7))
			} else if regs, e := q.AsRegisters(rr); e != nil {
				shared = L(I(1))
			} else {
				m1 = memberRaw(q.Fields, regs)
				m2 = memberRaw(qrev.Fields, regs)
				m3 = memberRaw(q.Fields, regs)
			}
			// only now are the values looked at: every result was held across all later calls
			outs := make([]V, 0, len(steps))
			for j := range raws {
				outs = append(outs, raws[j].proj(fields))
			}
			if shared == nil {
				shared = L(memberProj(fields, m1), memberProj(fields, m2), memberProj(fields, m3))
			}
			descs = append(descs, vList(append(head, B(before), B(reply), vList(outs), shared)))
		}
		return vOk(vList(descs))
	})
	emit("extract_seq", L(I(target), fieldVals(fields), vList(tids), U(ms), vList(ks), I(rot)), outcome)
}

func streamExtractSeq(seed uint64, thorough bool) {
	r := newRng(seed ^ 0xB13)
	// every field type next to a default-order uint16 / string, every explicit byte order
	for t := 4; t < 8; t++ {
		for bo := 0; bo < 16; bo++ {
			fields := []modbus.Field{}
			for ty := 1; ty <= 13; ty++ {
				f := mkField(len(fields), "a", 1, uint16(200+ty%4), modbus.FieldType(ty), 6)
				f.ByteOrder = packet.ByteOrder(bo)
				f.Bit = uint8((3*ty + bo) % 16)
				fields = append(fields, f)
				g := mkField(len(fields), "a", 1, uint16(200+ty%4), modbus.FieldType(1+(ty*7)%13), 5)
				fields = append(fields, g) // default order, same registers
			}
			extractSeqCase(r, t, fields, uint64(bo), false, bo%5)
			extractSeqCase(r, t, fields, uint64(bo+16), true, 1+bo%3)
		}
	}
	for t := 4; t < 8; t++ {
		for i, fs := range siblingCorpus() {
			extractSeqCase(r, t, fs, uint64(i), false, 1)
		}
	}
	n := 6000
	if thorough {
		n = 60000
	}
	for i := 0; i < n; i++ {
		target := 4 + r.intn(4)
		sc := genScenario(r)
		var fields []modbus.Field
		if r.intn(4) == 0 {
			fields = genFields(r, sc, 1+r.intn(20), 5, false)
		} else {
			fields = genMixedFields(r, sc, 1+r.intn(16))
		}
		if r.bool() {
			fields = addSiblings(r, fields, 30)
		}
		ms := uint64(r.intn(65536))
		if r.intn(8) == 0 { // long text strings: results of one read held across the next long read
			fields = genLongStrings(r, sc)
			ms = textSeed(r, fields[0].ServerAddress, fields[0].UnitID)
		}
		extractSeqCase(r, target, fields, ms, r.intn(3) == 0, r.intn(7))
	}
}
