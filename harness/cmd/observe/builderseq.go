package main

// Builder layer, property C13 (reading never changes the response) for field extraction: the
// "extract_seq" stream.  Register requests built by the builder from MIXED members (explicit
// byte orders next to default-order fields, overlapping fields, strings sharing registers with
// numbers, duplicates of a definition under another name); one reply of the conforming device per
// request; then on the SAME response object: ExtractFields strict / lenient twice, the same with a
// second BuilderRequest value that shares the packet but has its Fields reversed resp. rotated,
// and Field.ExtractFrom per member on ONE shared *packet.Registers in the original, the reversed
// and again the original order.  Outcome: every result list and the whole reply buffer before and
// after.

import (
	"strconv"

	modbus "github.com/aldas/go-modbus-client"
	"github.com/aldas/go-modbus-client/packet"
)

func init() {
	streams["extract_seq"] = streamExtractSeq
}

var explicitOrders = []uint8{1, 2, 4, 5, 6, 8, 9, 10, 3, 12}

// genMixedFields: one dense cluster on mostly one device
func genMixedFields(r *rng, sc fieldScenario, n int) []modbus.Field {
	fields := make([]modbus.Field, 0, n)
	base := uint16(r.intn(65000))
	switch r.intn(6) {
	case 0:
		base = 0
	case 1:
		base = uint16(65536 - 30)
	}
	for i := 0; i < n; i++ {
		if i > 0 && r.intn(6) == 0 { // the previous definition again, other name, maybe other order
			f := fields[i-1]
			f.Name = strconv.Itoa(i)
			if r.bool() {
				f.ByteOrder = packet.ByteOrder(explicitOrders[r.intn(len(explicitOrders))])
			}
			fields = append(fields, f)
			continue
		}
		f := modbus.Field{
			Name:          strconv.Itoa(i),
			ServerAddress: sc.servers[0],
			UnitID:        sc.units[0],
			Type:          modbus.FieldType(1 + r.intn(13)),
			Bit:           uint8(r.intn(16)),
			FromHighByte:  r.bool(),
			Address:       base + uint16(r.intn(14)),
		}
		if r.intn(8) == 0 {
			f.ServerAddress = sc.servers[r.intn(len(sc.servers))]
			f.UnitID = sc.units[r.intn(len(sc.units))]
		}
		if r.bool() {
			f.ByteOrder = packet.ByteOrder(explicitOrders[r.intn(len(explicitOrders))])
		}
		if f.Type == modbus.FieldTypeString {
			f.Length = uint8(1 + r.intn(16))
		}
		fields = append(fields, f)
	}
	return fields
}

func memberEntries(fields []modbus.Field, members []modbus.Field, regs *packet.Registers) V {
	es := make([]V, 0, len(members))
	for _, m := range members {
		f := m
		id := fieldID(fields, f)
		es = append(es, guardEntry(id, func() V {
			v, err := f.ExtractFrom(regs)
			if err != nil {
				return L(I(id), I(1))
			}
			return L(I(id), I(0), projFieldValue(v))
		}))
	}
	return vList(es)
}

func guardEntry(id int, f func() V) (res V) {
	defer func() {
		if r := recover(); r != nil {
			res = L(I(id), I(2))
		}
	}()
	return f()
}

func reversedFields(fs modbus.Fields) modbus.Fields {
	out := make(modbus.Fields, len(fs))
	for i, f := range fs {
		out[len(fs)-1-i] = f
	}
	return out
}

func rotatedFields(fs modbus.Fields, rot int) modbus.Fields {
	if len(fs) == 0 {
		return modbus.Fields{}
	}
	k := rot % len(fs)
	out := make(modbus.Fields, 0, len(fs))
	out = append(out, fs[k:]...)
	return append(out, fs[:k]...)
}

func extractSeqCase(r *rng, target int, fields []modbus.Field, ms uint64, truncate bool, rot int) {
	var tids, ks []V
	outcome := guard(func() V {
		reqs, err := callBuilder(target, fields, false)
		if err != nil {
			return vErr(Bool(reqs == nil))
		}
		sortRequests(reqs)
		descs := make([]V, 0, len(reqs))
		for _, q := range reqs {
			tid, _ := projReq(q.Request)
			tids = append(tids, I(tid))
			bytes := q.Bytes()
			tcp := target%2 == 0
			seed := devSeed(ms, q.ServerAddress, q.UnitID)
			_, _, qty := deviceReply(tcp, seed, bytes, -1)
			k := -1
			if truncate && qty > 1 && r.bool() {
				k = 1 + r.intn(qty-1)
			}
			ks = append(ks, I(k))
			reply, s, qq := deviceReply(tcp, seed, bytes, k)
			before := append([]byte(nil), reply...)
			var resp packet.Response
			var perr error
			if tcp {
				resp, perr = packet.ParseTCPResponse(reply)
			} else {
				resp, perr = packet.ParseRTUResponseWithCRC(reply)
			}
			head := []V{S(q.ServerAddress), I(int(q.UnitID)), I(s), I(qq)}
			if perr != nil {
				descs = append(descs, vList(append(head, L(I(4)))))
				continue
			}
			qrev, qrot := q, q
			qrev.Fields = reversedFields(q.Fields)
			qrot.Fields = rotatedFields(q.Fields, rot)
			outs := make([]V, 0, 8)
			for _, step := range []struct {
				req  modbus.BuilderRequest
				cont bool
			}{{q, false}, {q, true}, {q, false}, {q, true}, {qrev, false}, {qrev, true}, {qrot, false}, {qrot, true}} {
				st := step
				outs = append(outs, guard(func() V {
					vals, e := st.req.ExtractFields(resp, st.cont)
					return projExtraction(fields, vals, e)
				}))
			}
			var shared V
			if rr, ok := resp.(modbus.RegistersResponse); !ok {
				shared = L(I(7))
			} else if regs, e := q.AsRegisters(rr); e != nil {
				shared = L(I(1))
			} else {
				s1 := memberEntries(fields, q.Fields, regs)
				s2 := memberEntries(fields, qrev.Fields, regs)
				s3 := memberEntries(fields, q.Fields, regs)
				shared = L(s1, s2, s3)
			}
			descs = append(descs, vList(append(head, B(before), B(reply), vList(outs), shared)))
		}
		return vOk(vList(descs))
	})
	emit("extract_seq", L(I(target), fieldVals(fields), vList(tids), U(ms), vList(ks), I(rot)), outcome)
}

func streamExtractSeq(seed uint64, thorough bool) {
	r := newRng(seed ^ 0xB13)
	// every field type next to a default-order uint16 / string, every explicit byte order
	for t := 4; t < 8; t++ {
		for bo := 0; bo < 16; bo++ {
			fields := []modbus.Field{}
			for ty := 1; ty <= 13; ty++ {
				f := mkField(len(fields), "a", 1, uint16(200+ty%4), modbus.FieldType(ty), 6)
				f.ByteOrder = packet.ByteOrder(bo)
				f.Bit = uint8((3*ty + bo) % 16)
				fields = append(fields, f)
				g := mkField(len(fields), "a", 1, uint16(200+ty%4), modbus.FieldType(1+(ty*7)%13), 5)
				fields = append(fields, g) // default order, same registers
			}
			extractSeqCase(r, t, fields, uint64(bo), false, bo%5)
			extractSeqCase(r, t, fields, uint64(bo+16), true, 1+bo%3)
		}
	}
	for t := 4; t < 8; t++ {
		for i, fs := range siblingCorpus() {
			extractSeqCase(r, t, fs, uint64(i), false, 1)
		}
	}
	n := 6000
	if thorough {
		n = 60000
	}
	for i := 0; i < n; i++ {
		target := 4 + r.intn(4)
		sc := genScenario(r)
		var fields []modbus.Field
		if r.intn(4) == 0 {
			fields = genFields(r, sc, 1+r.intn(20), 5, false)
		} else {
			fields = genMixedFields(r, sc, 1+r.intn(16))
		}
		if r.bool() {
			fields = addSiblings(r, fields, 30)
		}
		extractSeqCase(r, target, fields, uint64(r.intn(65536)), r.intn(3) == 0, r.intn(7))
	}
}
