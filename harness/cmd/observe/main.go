// observe runs the real go-modbus-client code on generated inputs and prints one line per case:
// entry point, input, projected outcome.  The lines are recomputed by the Coq model (ocaml/driver).
package main

import (
	"flag"
	"fmt"
	"math/rand"
	"os"
)

type stream func(seed uint64, thorough bool)

var streams = map[string]stream{}

func main() {
	seed := flag.Uint64("seed", 1, "PRNG seed")
	tier := flag.String("tier", "quick", "quick|thorough")
	flag.Parse()
	if flag.NArg() < 1 {
		fmt.Fprintln(os.Stderr, "usage: observe [-seed n] [-tier t] <stream>...")
		os.Exit(2)
	}
	// the library draws transaction ids from the global math/rand source: seeding it makes every
	// stream reproduce the same cases for the same seed (needed by --replay)
	rand.Seed(int64(*seed)) //nolint:staticcheck
	for _, name := range flag.Args() {
		s, ok := streams[name]
		if !ok {
			fmt.Fprintln(os.Stderr, "unknown stream", name)
			os.Exit(2)
		}
		s(*seed, *tier == "thorough")
	}
	out.Flush()
	fmt.Fprintf(os.Stderr, "emitted %d cases\n", emitted)
}
