package main

// Builder layer: the "builder_alias" stream (cases of the entry "split_seq").  A Builder must hold
// the definitions AS THEY WERE when they were handed to AddAll / Add, whatever the caller does
// with its own slice afterwards:
//   * the caller's slice has spare capacity, is given to two builders, and each builder then gets
//     one more field through Add;
//   * one template slice is stamped with each server address in turn and passed to AddAll of the
//     same builder every time;
//   * after AddAll the caller overwrites elements of its slice, appends to it, re-slices and
//     sorts it;
// lists of 1..12 fields (the builder pre-allocates room for 5).  Every build (2..4 per builder,
// all targets) is compared with the model's split of the expected list and judged by C06 / C05.

import (
	"strconv"

	modbus "github.com/aldas/go-modbus-client"
)

func init() {
	streams["builder_alias"] = streamBuilderAlias
}

func renumber(fields []modbus.Field) []modbus.Field {
	out := append([]modbus.Field(nil), fields...)
	for i := range out {
		out[i].Name = strconv.Itoa(i)
	}
	return out
}

func aliasTargets(r *rng) []int {
	ts := make([]int, 2+r.intn(3))
	for i := range ts {
		ts[i] = 4 + r.intn(4)
		if r.intn(4) == 0 {
			ts[i] = r.intn(4)
		}
	}
	return ts
}

// growCases: [build A; add; build B; build A] and [A; add; B; A; B] for every ordered pair of the
// eight targets (Add and AddAll), then random longer interleavings
func growCases(r *rng, thorough bool) {
	mixed := func(n, from int) []modbus.Field {
		sc := fieldScenario{servers: []string{"a", "b_1"}, units: []uint8{1, 2}}
		if r.intn(3) == 0 {
			fam := serverFamilies[r.intn(len(serverFamilies))]
			sc = fieldScenario{servers: []string{fam[0], fam[1], fam[2%len(fam)]}, units: []uint8{1}}
		}
		fs := genFields(r, sc, n, 50, false)
		for i := range fs {
			fs[i].Name = strconv.Itoa(from + i)
		}
		return fs
	}
	for a := 0; a < 8; a++ {
		for b := 0; b < 8; b++ {
			if a == b {
				continue
			}
			ini := mixed(4+r.intn(4), 0)
			p1 := mixed(2+r.intn(3), len(ini))
			p2 := mixed(1+r.intn(3), len(ini)+len(p1))
			splitGrowCase(ini, [][]modbus.Field{p1}, []int{a, -1, b, a}, uint64(a*8+b))
			splitGrowCase(ini, [][]modbus.Field{p1}, []int{a, -2, b, a, b}, uint64(a*8+b))
			splitGrowCase(ini, [][]modbus.Field{p1, p2}, []int{a, -1, b, -2, a, b, a}, uint64(a*8+b))
		}
	}
	n := 300
	if thorough {
		n = 3000
	}
	for i := 0; i < n; i++ {
		ini := mixed(r.intn(8), 0)
		total := len(ini)
		var portions [][]modbus.Field
		var ops []int
		for j, steps := 0, 4+r.intn(8); j < steps; j++ {
			if r.intn(3) == 0 {
				p := mixed(1+r.intn(4), total)
				total += len(p)
				portions = append(portions, p)
				ops = append(ops, -1-r.intn(2))
			} else {
				ops = append(ops, r.intn(8))
			}
		}
		splitGrowCase(ini, portions, ops, uint64(r.intn(65536)))
	}
}

func streamBuilderAlias(seed uint64, thorough bool) {
	r := newRng(seed ^ 0xBA1)
	growCases(r, thorough)
	n := 1500
	if thorough {
		n = 15000
	}
	for i := 0; i < n; i++ {
		sc := genScenario(r)
		cnt := 1 + r.intn(12)
		if r.bool() {
			cnt = 6 + r.intn(4) // more than the builder's pre-allocated room
		}
		base := renumber(genFields(r, sc, cnt, 15, false))
		extra := func(k int) modbus.Field {
			f := genFields(r, sc, 1, 10, false)[0]
			f.Name = strconv.Itoa(k)
			return f
		}
		ms := uint64(r.intn(65536))
		switch r.intn(4) {
		case 0: // (a) two builders share the caller's slice (spare capacity), each gets one more field
			src := make([]modbus.Field, len(base), len(base)+1+r.intn(4))
			copy(src, base)
			e1, e2 := extra(len(base)), extra(len(base))
			b1 := modbus.NewRequestBuilder("", 0).AddAll(src)
			b2 := modbus.NewRequestBuilder("", 0).AddAll(src)
			b1.Add(&modbus.BField{Field: e1})
			b2.Add(&modbus.BField{Field: e2})
			want1 := append(append([]modbus.Field(nil), base...), e1)
			want2 := append(append([]modbus.Field(nil), base...), e2)
			splitSeqRun(func() *modbus.Builder { return b1 }, want1, aliasTargets(r), ms)
			splitSeqRun(func() *modbus.Builder { return b2 }, want2, aliasTargets(r), ms)
		case 1: // (b) one template, stamped per server, AddAll every time
			tmpl := make([]modbus.Field, len(base), len(base)+r.intn(3))
			copy(tmpl, base)
			b := modbus.NewRequestBuilder("", 0)
			var want []modbus.Field
			servers := []string{"s1:502", "s2:502", "s_3"}[:2+r.intn(2)]
			for k, srv := range servers {
				for j := range tmpl {
					tmpl[j].ServerAddress = srv
					tmpl[j].Name = strconv.Itoa(k*len(tmpl) + j)
				}
				b.AddAll(tmpl)
				want = append(want, tmpl...) // append copies the elements
			}
			splitSeqRun(func() *modbus.Builder { return b }, want, aliasTargets(r), ms)
		case 2: // (c) the caller keeps working with its slice
			src := make([]modbus.Field, len(base), len(base)+2)
			copy(src, base)
			b := modbus.NewRequestBuilder(base[0].ServerAddress, base[0].UnitID).AddAll(src)
			for j := range src {
				switch r.intn(4) {
				case 0:
					src[j].Address += uint16(1 + r.intn(300))
				case 1:
					src[j].Type = modbus.FieldType(1 + r.intn(14))
				case 2:
					src[j].UnitID++
				}
			}
			src = append(src, extra(99))
			if len(src) > 2 {
				src[0], src[1] = src[1], src[0]
			}
			want := base
			if r.bool() {
				e := extra(len(base))
				b.Add(&modbus.BField{Field: e})
				want = append(append([]modbus.Field(nil), base...), e)
			}
			splitSeqRun(func() *modbus.Builder { return b }, want, aliasTargets(r), ms)
		default: // AddAll in two portions, the first one mutated in between
			k := len(base) / 2
			p1 := make([]modbus.Field, k, k+3)
			copy(p1, base[:k])
			p2 := append([]modbus.Field(nil), base[k:]...)
			b := modbus.NewRequestBuilder("", 0).AddAll(p1)
			for j := range p1 {
				p1[j].Address ^= 0x55
			}
			b.AddAll(p2)
			for j := range p2 {
				p2[j].ServerAddress = "zz"
			}
			splitSeqRun(func() *modbus.Builder { return b }, base, aliasTargets(r), ms)
		}
	}
}
