package main

// Server request/reply layer (C15, C16): the scripted ModbusHandler (the same function as
// script_handler in coq/DispServer.v), request frame builders and the in-memory transport used
// to drive the real server.Server.

import (
	"context"
	"encoding/binary"
	"errors"
	"fmt"
	"io"
	"log"
	"net"
	"os"
	"sync"
	"sync/atomic"
	"time"

	"github.com/aldas/go-modbus-client/packet"
	"github.com/aldas/go-modbus-client/server"
)

// ---------- scripted handler ----------

// srvRaw is a response packet with arbitrary bytes
type srvRaw struct{ b []byte }

func (r srvRaw) FunctionCode() uint8 { return 0 }
func (r srvRaw) Bytes() []byte       { return r.b }

type srvHandler struct{ mode int }

// error sentinels shared by all requests and connections of the process
var (
	srvErrSentinel = packet.NewErrorParseTCP(packet.ErrServerFailure, "scripted sentinel")
	srvErrZero     = &packet.ErrorParseTCP{}
)

// mode 2: the handler of mode 0, but slower than the server's write timeout
const (
	srvSlowHandler  = 60 * time.Millisecond
	srvShortTimeout = 20 * time.Millisecond
)

func srvPattern(start uint16, n int) []byte {
	b := make([]byte, n)
	for i := range b {
		b[i] = byte(int(start) + i)
	}
	return b
}

// srvEcho builds the correct response for a parsed request with the library's response types
func srvEcho(req packet.Request) (uint16, packet.Response) {
	switch q := req.(type) {
	case *packet.ReadCoilsRequestTCP:
		n := (int(q.Quantity) + 7) / 8
		return q.TransactionID, &packet.ReadCoilsResponseTCP{MBAPHeader: packet.MBAPHeader{TransactionID: q.TransactionID},
			ReadCoilsResponse: packet.ReadCoilsResponse{UnitID: q.UnitID, CoilsByteLength: uint8(n), Data: srvPattern(q.StartAddress, n)}}
	case *packet.ReadDiscreteInputsRequestTCP:
		n := (int(q.Quantity) + 7) / 8
		return q.TransactionID, &packet.ReadDiscreteInputsResponseTCP{MBAPHeader: packet.MBAPHeader{TransactionID: q.TransactionID},
			ReadDiscreteInputsResponse: packet.ReadDiscreteInputsResponse{UnitID: q.UnitID, InputsByteLength: uint8(n), Data: srvPattern(q.StartAddress, n)}}
	case *packet.ReadHoldingRegistersRequestTCP:
		n := 2 * int(q.Quantity)
		return q.TransactionID, &packet.ReadHoldingRegistersResponseTCP{MBAPHeader: packet.MBAPHeader{TransactionID: q.TransactionID},
			ReadHoldingRegistersResponse: packet.ReadHoldingRegistersResponse{UnitID: q.UnitID, RegisterByteLen: uint8(n), Data: srvPattern(q.StartAddress, n)}}
	case *packet.ReadInputRegistersRequestTCP:
		n := 2 * int(q.Quantity)
		return q.TransactionID, &packet.ReadInputRegistersResponseTCP{MBAPHeader: packet.MBAPHeader{TransactionID: q.TransactionID},
			ReadInputRegistersResponse: packet.ReadInputRegistersResponse{UnitID: q.UnitID, RegisterByteLen: uint8(n), Data: srvPattern(q.StartAddress, n)}}
	case *packet.WriteSingleCoilRequestTCP:
		return q.TransactionID, &packet.WriteSingleCoilResponseTCP{MBAPHeader: packet.MBAPHeader{TransactionID: q.TransactionID},
			WriteSingleCoilResponse: packet.WriteSingleCoilResponse{UnitID: q.UnitID, StartAddress: q.Address, CoilState: q.CoilState}}
	case *packet.WriteSingleRegisterRequestTCP:
		return q.TransactionID, &packet.WriteSingleRegisterResponseTCP{MBAPHeader: packet.MBAPHeader{TransactionID: q.TransactionID},
			WriteSingleRegisterResponse: packet.WriteSingleRegisterResponse{UnitID: q.UnitID, Address: q.Address, Data: q.Data}}
	case *packet.WriteMultipleCoilsRequestTCP:
		return q.TransactionID, &packet.WriteMultipleCoilsResponseTCP{MBAPHeader: packet.MBAPHeader{TransactionID: q.TransactionID},
			WriteMultipleCoilsResponse: packet.WriteMultipleCoilsResponse{UnitID: q.UnitID, StartAddress: q.StartAddress, CoilCount: q.CoilCount}}
	case *packet.WriteMultipleRegistersRequestTCP:
		return q.TransactionID, &packet.WriteMultipleRegistersResponseTCP{MBAPHeader: packet.MBAPHeader{TransactionID: q.TransactionID},
			WriteMultipleRegistersResponse: packet.WriteMultipleRegistersResponse{UnitID: q.UnitID, StartAddress: q.StartAddress, RegisterCount: q.RegisterCount}}
	case *packet.ReadServerIDRequestTCP:
		return q.TransactionID, &packet.ReadServerIDResponseTCP{MBAPHeader: packet.MBAPHeader{TransactionID: q.TransactionID},
			ReadServerIDResponse: packet.ReadServerIDResponse{UnitID: q.UnitID, Status: 255, ServerID: []byte{0x56, 0x46}, AdditionalData: []byte{q.UnitID}}}
	case *packet.ReadWriteMultipleRegistersRequestTCP:
		n := 2 * int(q.ReadQuantity)
		return q.TransactionID, &packet.ReadWriteMultipleRegistersResponseTCP{MBAPHeader: packet.MBAPHeader{TransactionID: q.TransactionID},
			ReadWriteMultipleRegistersResponse: packet.ReadWriteMultipleRegistersResponse{UnitID: q.UnitID, RegisterByteLen: uint8(n), Data: srvPattern(q.ReadStartAddress, n)}}
	}
	panic("srvEcho: unexpected request type")
}

// srvMutate overwrites the scalar fields of a parsed request in place (transaction id, unit id,
// addresses, read quantities); payload slices are left alone (they alias the server's buffer)
func srvMutate(req packet.Request) {
	switch q := req.(type) {
	case *packet.ReadCoilsRequestTCP:
		q.TransactionID, q.UnitID, q.StartAddress, q.Quantity = q.TransactionID^0x5555, q.UnitID+17, q.StartAddress^0x0F0F, 1
	case *packet.ReadDiscreteInputsRequestTCP:
		q.TransactionID, q.UnitID, q.StartAddress, q.Quantity = q.TransactionID^0x5555, q.UnitID+17, q.StartAddress^0x0F0F, 1
	case *packet.ReadHoldingRegistersRequestTCP:
		q.TransactionID, q.UnitID, q.StartAddress, q.Quantity = q.TransactionID^0x5555, q.UnitID+17, q.StartAddress^0x0F0F, 1
	case *packet.ReadInputRegistersRequestTCP:
		q.TransactionID, q.UnitID, q.StartAddress, q.Quantity = q.TransactionID^0x5555, q.UnitID+17, q.StartAddress^0x0F0F, 1
	case *packet.WriteSingleCoilRequestTCP:
		q.TransactionID, q.UnitID, q.Address, q.CoilState = q.TransactionID^0x5555, q.UnitID+17, q.Address^0x0F0F, !q.CoilState
	case *packet.WriteSingleRegisterRequestTCP:
		q.TransactionID, q.UnitID, q.Address = q.TransactionID^0x5555, q.UnitID+17, q.Address^0x0F0F
	case *packet.WriteMultipleCoilsRequestTCP:
		q.TransactionID, q.UnitID, q.StartAddress = q.TransactionID^0x5555, q.UnitID+17, q.StartAddress^0x0F0F
	case *packet.WriteMultipleRegistersRequestTCP:
		q.TransactionID, q.UnitID, q.StartAddress = q.TransactionID^0x5555, q.UnitID+17, q.StartAddress^0x0F0F
	case *packet.ReadServerIDRequestTCP:
		q.TransactionID, q.UnitID = q.TransactionID^0x5555, q.UnitID+17
	case *packet.ReadWriteMultipleRegistersRequestTCP:
		q.TransactionID, q.UnitID, q.ReadStartAddress, q.ReadQuantity, q.WriteStartAddress =
			q.TransactionID^0x5555, q.UnitID+17, q.ReadStartAddress^0x0F0F, 1, q.WriteStartAddress^0x0F0F
	}
}

// Handle: behaviour chosen by the transaction id (see coq/DispServer.v)
func (h srvHandler) Handle(ctx context.Context, req packet.Request) (packet.Response, error) {
	if h.mode == 1 {
		return srvRaw{[]byte{}}, nil
	}
	if h.mode == 2 {
		time.Sleep(srvSlowHandler) // longer than the WriteTimeout of the rig it runs in
	}
	tid, resp := srvEcho(req)
	// gateway style: the handler renumbers / remaps the request it was handed, in place, before it
	// returns; every reply must still be addressed from the frame that arrived
	srvMutate(req)
	cls := int(tid % 8)
	k := uint8((tid / 8) % 256)
	switch {
	case cls < 4:
		return resp, nil
	case cls == 4:
		// codes 4 and 0 come from sentinels: the same *ErrorParseTCP instance is returned for every
		// such request, on every connection (the `var errX = packet.NewErrorParseTCP(...)` idiom)
		if k == packet.ErrServerFailure {
			return nil, srvErrSentinel
		}
		if k == 0 {
			return nil, srvErrZero
		}
		return nil, packet.NewErrorParseTCP(k, "scripted typed error")
	case cls == 7:
		if k == packet.ErrServerFailure {
			return resp, fmt.Errorf("scripted wrapped sentinel: %w", srvErrSentinel)
		}
		return resp, fmt.Errorf("scripted wrapped error: %w", packet.NewErrorParseTCP(k, "inner"))
	case cls == 5:
		if k%2 == 0 {
			return nil, errors.New("scripted generic error")
		}
		// passed by value: errors.As with a **ErrorParseTCP target does not match
		return nil, packet.ErrorParseTCP{Message: "by value", Packet: packet.ErrorResponseTCP{TransactionID: 7, UnitID: 7, Function: 7, Code: 9}}
	default:
		if k%2 == 0 {
			panic("scripted handler panic")
		}
		return nil, nil // resp.Bytes() on a nil interface panics in the assembler
	}
}

// ---------- frames ----------

func srvSetTid(b []byte, tid uint16) []byte {
	binary.BigEndian.PutUint16(b[0:2], tid)
	return b
}

// srvLegal returns the library's encoding of a legal request of function fc (index into the ten
// supported functions) with the given transaction id; size selects small / medium / maximal payloads
func srvLegal(r *rng, fc int, tid uint16, size int) []byte {
	u := r.u8()
	a := r.edge16()
	var req packet.Request
	var err error
	qty := func(max int) uint16 {
		switch size {
		case 0:
			return uint16(1 + r.intn(3))
		case 1:
			return uint16(1 + r.intn(max))
		default:
			return uint16(max)
		}
	}
	switch fc {
	case 1:
		req, err = packet.NewReadCoilsRequestTCP(u, a, qty(125))
	case 2:
		req, err = packet.NewReadDiscreteInputsRequestTCP(u, a, qty(125))
	case 3:
		req, err = packet.NewReadHoldingRegistersRequestTCP(u, a, qty(125))
	case 4:
		req, err = packet.NewReadInputRegistersRequestTCP(u, a, qty(125))
	case 5:
		req, err = packet.NewWriteSingleCoilRequestTCP(u, a, r.bool())
	case 6:
		req, err = packet.NewWriteSingleRegisterRequestTCP(u, a, r.bytes(2))
	case 15:
		n := int(qty(1968))
		coils := make([]bool, n)
		for i := range coils {
			coils[i] = r.bool()
		}
		req, err = packet.NewWriteMultipleCoilsRequestTCP(u, a, coils)
	case 16:
		req, err = packet.NewWriteMultipleRegistersRequestTCP(u, a, r.bytes(2*int(qty(123))))
	case 17:
		req, err = packet.NewReadServerIDRequestTCP(u)
	case 23:
		req, err = packet.NewReadWriteMultipleRegistersRequestTCP(u, a, qty(124), r.edge16(), r.bytes(2*int(qty(121))))
	default:
		panic("srvLegal fc")
	}
	if err != nil {
		panic(fmt.Sprintf("srvLegal: constructor refused: %v", err))
	}
	return srvSetTid(req.Bytes(), tid)
}

var srvFcs = []int{1, 2, 3, 4, 5, 6, 15, 16, 17, 23}

// srvRawFrame: header with a consistent length field around an arbitrary PDU
func srvRawFrame(tid uint16, unit uint8, fc uint8, body []byte) []byte {
	b := make([]byte, 8+len(body))
	binary.BigEndian.PutUint16(b[0:2], tid)
	binary.BigEndian.PutUint16(b[4:6], uint16(2+len(body)))
	b[6] = unit
	b[7] = fc
	copy(b[8:], body)
	return b
}

func srvFixLen(b []byte) []byte {
	binary.BigEndian.PutUint16(b[4:6], uint16(len(b)-6))
	return b
}

// a transaction id whose scripted class is a response (mostly) or one of the error classes
func srvTid(r *rng, allowPanic bool) uint16 {
	t := r.u16()
	switch r.intn(10) {
	case 0:
		t = t&^7 | 4
	case 1:
		t = t&^7 | 5
	case 2:
		t = t&^7 | 7
	case 3:
		if allowPanic {
			t = t&^7 | 6
		} else {
			t = t &^ 4
		}
	default:
		t = t &^ 4 // classes 0..3
	}
	return t
}

// srvBadFrame: one of the malformed / unsupported request shapes of C16
func srvBadFrame(r *rng, tid uint16) []byte {
	switch r.intn(9) {
	case 0: // unsupported function code 1..127 with a body
		for {
			fc := uint8(1 + r.intn(127))
			if !srvSupported(fc) {
				return srvRawFrame(tid, r.u8(), fc, r.bytes(1+r.intn(6)))
			}
		}
	case 1: // function code >= 128
		return srvRawFrame(tid, r.u8(), uint8(128+r.intn(128)), r.bytes(1+r.intn(5)))
	case 2, 3: // out-of-range quantity / value
		fc := []int{1, 2, 3, 4, 5, 15, 16, 23}[r.intn(8)]
		b := srvLegal(r, fc, tid, 0)
		bad := []uint16{0, 126, 127, 2001, 1969, 124, 122, 0xFFFF, 0x00FF, 0xFF01, 256}[r.intn(11)]
		off := 10
		if fc == 23 && r.bool() {
			off = 14
		}
		binary.BigEndian.PutUint16(b[off:off+2], bad)
		return b
	case 4: // truncated body, header length consistent with the truncation
		fc := srvFcs[r.intn(10)]
		b := srvLegal(r, fc, tid, r.intn(2))
		if len(b) <= 9 {
			return b
		}
		return srvFixLen(b[:9+r.intn(len(b)-9)])
	case 5: // byte count field perturbed
		fc := []int{15, 16, 23}[r.intn(3)]
		b := srvLegal(r, fc, tid, r.intn(2))
		off := 12
		if fc == 23 {
			off = 16
		}
		b[off] = byte(int(b[off]) + []int{1, -1, 2, 100, -int(b[off])}[r.intn(5)])
		return b
	case 6: // data longer / shorter than the byte count, header length consistent
		fc := []int{15, 16, 23}[r.intn(3)]
		b := srvLegal(r, fc, tid, r.intn(2))
		if r.bool() {
			b = append(b, r.bytes(1+r.intn(3))...)
		} else {
			b = b[:len(b)-1]
		}
		return srvFixLen(b)
	case 7: // fixed-length request with extra bytes
		fc := []int{1, 3, 5, 6, 17}[r.intn(5)]
		b := append(srvLegal(r, fc, tid, 0), r.bytes(1+r.intn(4))...)
		return srvFixLen(b)
	default: // 1-byte PDU of a function other than 17
		fc := uint8(1 + r.intn(127))
		if fc == 17 {
			fc = 7
		}
		return srvRawFrame(tid, r.u8(), fc, nil)
	}
}

func srvSupported(fc uint8) bool {
	for _, f := range srvFcs {
		if int(fc) == f {
			return true
		}
	}
	return false
}

// MBAP length fields beyond the largest legal ADU (254): the classifier delimits any length, the
// connection loop reads 300 bytes at a time
var srvOverLens = []int{255, 256, 260, 300, 512, 1000}

// srvOversize: a frame whose MBAP length field is L, all 6+L announced bytes present.
//
//	shape 0: a valid request of function fc followed by padding (covered by the length field)
//	shape 1: FC15/16/23 (fc selects) whose byte count covers as much of the frame as a count byte
//	         can, with that much data (filling the frame exactly when 6+L allows it)
//	shape 2: random body behind the supported function code fc
//	shape 3: random body behind an unsupported function code 1..127
func srvOversize(r *rng, tid uint16, L int, shape int, fc int) []byte {
	total := 6 + L
	var b []byte
	switch shape {
	case 0:
		b = srvLegal(r, fc, tid, 0)
		pad := r.bytes(total - len(b))
		switch r.intn(3) {
		case 0:
			for i := range pad {
				pad[i] = 0
			}
		case 1:
			for i := range pad {
				pad[i] = 0xFF
			}
		}
		b = append(b, pad...)
	case 1:
		f := []int{15, 16, 23}[fc%3]
		fixed := 13
		if f == 23 {
			fixed = 17
		}
		b = srvLegal(r, f, tid, 0)[:fixed]
		bc := total - fixed
		if bc > 255 {
			bc = 255 - r.intn(2)
		}
		b[fixed-1] = byte(bc)
		switch r.intn(3) { // the count field: small, "consistent" with the byte count, or kept
		case 0:
			binary.BigEndian.PutUint16(b[fixed-3:fixed-1], 2)
		case 1:
			binary.BigEndian.PutUint16(b[fixed-3:fixed-1], uint16(bc/2))
		}
		b = append(b, r.bytes(total-fixed)...)
	case 2:
		b = srvRawFrame(tid, r.u8(), uint8(fc), r.bytes(L-2))
	default:
		for {
			u := uint8(1 + r.intn(127))
			if !srvSupported(u) {
				b = srvRawFrame(tid, r.u8(), u, r.bytes(L-2))
				break
			}
		}
	}
	binary.BigEndian.PutUint16(b[4:6], uint16(L))
	if len(b) != total {
		panic("srvOversize: length")
	}
	return b
}

// srvOversizeStreams: every oversize shape for every length, each followed by a normal request
func srvOversizeStreams(r *rng, f func(s []byte)) {
	for _, L := range srvOverLens {
		for i, fc := range srvFcs {
			f(append(srvOversize(r, srvTid(r, false), L, 0, fc), srvLegal(r, srvFcs[(i+3)%10], srvTid(r, false)&^4, 0)...))
		}
		for k := 0; k < 3; k++ {
			f(append(srvOversize(r, srvTid(r, false), L, 1, k), srvLegal(r, srvFcs[r.intn(10)], srvTid(r, false)&^4, 0)...))
			f(append(srvOversize(r, srvTid(r, false), L, 2, srvFcs[r.intn(10)]), srvLegal(r, srvFcs[r.intn(10)], srvTid(r, false)&^4, 0)...))
			f(append(srvOversize(r, srvTid(r, false), L, 3, 0), srvLegal(r, srvFcs[r.intn(10)], srvTid(r, false)&^4, 0)...))
		}
	}
}

// srvBigReplyStreams: many small requests with maximal replies, so that the requests completed by
// one read are answered with more than 1024, 2048, 4096 bytes
func srvBigReplyStreams(r *rng, f func(s []byte)) {
	build := func(n int, fcs []int) []byte {
		var s []byte
		for i := 0; i < n; i++ {
			fc := fcs[i%len(fcs)]
			tid := uint16(0x7000+i*16) | uint16(r.intn(4))
			var req packet.Request
			switch fc {
			case 3:
				req, _ = packet.NewReadHoldingRegistersRequestTCP(uint8(1+i), uint16(100*i), 125)
			case 4:
				req, _ = packet.NewReadInputRegistersRequestTCP(uint8(1+i), uint16(100*i), 125)
			case 1:
				req, _ = packet.NewReadCoilsRequestTCP(uint8(1+i), uint16(100*i), 2000) // refused by the parser (limit 125): 9-byte replies
			default:
				req, _ = packet.NewReadWriteMultipleRegistersRequestTCP(uint8(1+i), uint16(100*i), 124, 7, []byte{1, 2})
			}
			s = append(s, srvSetTid(req.Bytes(), tid)...)
		}
		return s
	}
	f(build(4, []int{3}))
	f(build(9, []int{3}))
	f(build(16, []int{4}))
	f(build(5, []int{3, 23, 4}))
	f(build(20, []int{3, 1, 23}))
	f(build(16, []int{1}))
}

// srvGarbage: bytes that are not the start of a Modbus TCP ADU
func srvGarbage(r *rng) []byte {
	switch r.intn(5) {
	case 0: // protocol id != 0
		b := srvLegal(r, 3, r.u16(), 0)
		b[2+r.intn(2)] = byte(1 + r.intn(255))
		return b
	case 1: // length field 0 or 1
		b := srvLegal(r, 3, r.u16(), 0)
		b[4], b[5] = 0, byte(r.intn(2))
		return b
	case 2: // function code 0
		return srvRawFrame(r.u16(), r.u8(), 0, r.bytes(4))
	case 3:
		return r.bytes(8 + r.intn(12))
	default: // text
		return []byte("GET / HTTP/1.1\r\n")
	}
}

// ---------- in-memory transport ----------

type srvAddr struct{}

func (srvAddr) Network() string { return "mem" }
func (srvAddr) String() string  { return "mem" }

type srvListener struct {
	ch   chan net.Conn
	done chan struct{}
	once sync.Once
}

func newSrvListener() *srvListener {
	return &srvListener{ch: make(chan net.Conn), done: make(chan struct{})}
}
func (l *srvListener) Accept() (net.Conn, error) {
	select {
	case c := <-l.ch:
		return c, nil
	case <-l.done:
		return nil, net.ErrClosed
	}
}
func (l *srvListener) Close() error   { l.once.Do(func() { close(l.done) }); return nil }
func (l *srvListener) Addr() net.Addr { return srvAddr{} }

// srvRec wraps the server side of a connection and records, in the order the connection
// goroutine performs them, the non-empty reads, the bytes written after each of them and how the
// connection ended.
type srvRec struct {
	net.Conn
	mu             sync.Mutex
	reads          [][]byte
	flags          []bool // the read came together with os.ErrDeadlineExceeded
	cums           [][]byte
	written        []byte
	nwrites        int
	earlyWrite     bool // a Write before any read
	sawReadErr     bool // Read returned an error other than a deadline (client closed): not server initiated
	closedByServer bool
	isClosed       bool
	closed         chan struct{}
}

func newSrvRec(c net.Conn) *srvRec { return &srvRec{Conn: c, closed: make(chan struct{})} }

// Read records the non-empty reads and, on a scripted connection, the scripted empty ones
func (c *srvRec) Read(p []byte) (int, error) {
	n, err := c.Conn.Read(p)
	dl := err != nil && errors.Is(err, os.ErrDeadlineExceeded)
	scripted := false
	if sc, ok := c.Conn.(interface{ lastWasScripted() bool }); ok {
		scripted = sc.lastWasScripted()
	}
	c.mu.Lock()
	if n > 0 || scripted {
		c.reads = append(c.reads, append([]byte(nil), p[:n]...))
		c.flags = append(c.flags, dl)
		c.cums = append(c.cums, append([]byte(nil), c.written...))
	}
	if err != nil && !dl {
		c.sawReadErr = true
	}
	c.mu.Unlock()
	return n, err
}

// Write records what the connection accepted
func (c *srvRec) Write(p []byte) (int, error) {
	n, err := c.Conn.Write(p)
	c.mu.Lock()
	if n > 0 {
		c.written = append(c.written, p[:n]...)
		c.nwrites++
		if len(c.cums) > 0 {
			c.cums[len(c.cums)-1] = append([]byte(nil), c.written...)
		} else {
			c.earlyWrite = true
		}
	}
	c.mu.Unlock()
	return n, err
}
func (c *srvRec) Close() error {
	c.mu.Lock()
	if !c.isClosed {
		c.isClosed = true
		c.closedByServer = !c.sawReadErr
		close(c.closed)
	}
	c.mu.Unlock()
	return c.Conn.Close()
}

// srvBuf is the server side of a connection whose peer has already sent everything: Read hands
// out whatever is buffered (at most len(p)), then blocks until the deadline; Write discards.
type srvBuf struct {
	mu     sync.Mutex
	buf    []byte
	eof    bool
	closed bool
	rdl    time.Time
	wake   chan struct{}
	idle   chan struct{} // signalled when a Read finds the buffer empty
}

func newSrvBuf(data []byte) *srvBuf {
	return &srvBuf{buf: append([]byte(nil), data...), wake: make(chan struct{}, 1), idle: make(chan struct{}, 1)}
}
func (c *srvBuf) Read(p []byte) (int, error) {
	for {
		c.mu.Lock()
		if c.closed {
			c.mu.Unlock()
			return 0, net.ErrClosed
		}
		if len(c.buf) > 0 {
			n := copy(p, c.buf)
			c.buf = c.buf[n:]
			c.mu.Unlock()
			return n, nil
		}
		if c.eof {
			c.mu.Unlock()
			return 0, io.EOF
		}
		dl := c.rdl
		c.mu.Unlock()
		select {
		case c.idle <- struct{}{}:
		default:
		}
		wait := time.Until(dl)
		if dl.IsZero() {
			wait = time.Hour
		}
		if wait <= 0 {
			return 0, os.ErrDeadlineExceeded
		}
		t := time.NewTimer(wait)
		select {
		case <-c.wake:
			t.Stop()
		case <-t.C:
			return 0, os.ErrDeadlineExceeded
		}
	}
}
func (c *srvBuf) Write(p []byte) (int, error) { return len(p), nil }
func (c *srvBuf) Close() error {
	c.mu.Lock()
	c.closed = true
	c.mu.Unlock()
	select {
	case c.wake <- struct{}{}:
	default:
	}
	return nil
}
func (c *srvBuf) sendEOF() {
	c.mu.Lock()
	c.eof = true
	c.mu.Unlock()
	select {
	case c.wake <- struct{}{}:
	default:
	}
}
func (c *srvBuf) LocalAddr() net.Addr  { return srvAddr{} }
func (c *srvBuf) RemoteAddr() net.Addr { return srvAddr{} }
func (c *srvBuf) SetDeadline(t time.Time) error {
	c.mu.Lock()
	c.rdl = t
	c.mu.Unlock()
	return nil
}
func (c *srvBuf) SetReadDeadline(t time.Time) error  { return c.SetDeadline(t) }
func (c *srvBuf) SetWriteDeadline(t time.Time) error { return nil }

// srvScript is the server side of a connection whose reads follow a script: every event is what
// one conn.Read returns -- (n, nil), (n, os.ErrDeadlineExceeded) or (0, os.ErrDeadlineExceeded) --
// as io.Reader allows and a user-supplied listener may do.  After the script the reads block until
// the read deadline.  Write enforces the write deadline: after it, it fails with
// os.ErrDeadlineExceeded.
type srvEvent struct {
	data []byte
	dl   bool
}

type srvScript struct {
	mu           sync.Mutex
	events       []srvEvent
	eof          bool
	closed       bool
	rdl, wdl     time.Time
	wake         chan struct{}
	idle         chan struct{} // signalled when a Read finds the script exhausted
	lastScripted bool          // the last Read returned a scripted event (read by the same goroutine)
}

func newSrvScript(events []srvEvent) *srvScript {
	return &srvScript{events: append([]srvEvent(nil), events...), wake: make(chan struct{}, 1), idle: make(chan struct{}, 1)}
}
func (c *srvScript) Read(p []byte) (int, error) {
	for {
		c.mu.Lock()
		if c.closed {
			c.lastScripted = false
			c.mu.Unlock()
			return 0, net.ErrClosed
		}
		if len(c.events) > 0 {
			ev := c.events[0]
			n := copy(p, ev.data)
			c.lastScripted = true
			if n < len(ev.data) { // longer than the caller's buffer: the rest comes with the next Read
				c.events[0].data = ev.data[n:]
				c.mu.Unlock()
				return n, nil
			}
			c.events = c.events[1:]
			c.mu.Unlock()
			if ev.dl {
				return n, os.ErrDeadlineExceeded
			}
			return n, nil
		}
		c.lastScripted = false
		if c.eof {
			c.mu.Unlock()
			return 0, io.EOF
		}
		dl := c.rdl
		c.mu.Unlock()
		select {
		case c.idle <- struct{}{}:
		default:
		}
		wait := time.Until(dl)
		if dl.IsZero() {
			wait = time.Hour
		}
		if wait <= 0 {
			return 0, os.ErrDeadlineExceeded
		}
		t := time.NewTimer(wait)
		select {
		case <-c.wake:
			t.Stop()
		case <-t.C:
			return 0, os.ErrDeadlineExceeded
		}
	}
}
func (c *srvScript) Write(p []byte) (int, error) {
	c.mu.Lock()
	wdl, closed := c.wdl, c.closed
	c.mu.Unlock()
	if closed {
		return 0, net.ErrClosed
	}
	if !wdl.IsZero() && time.Now().After(wdl) {
		return 0, os.ErrDeadlineExceeded
	}
	return len(p), nil
}
func (c *srvScript) Close() error {
	c.mu.Lock()
	c.closed = true
	c.mu.Unlock()
	select {
	case c.wake <- struct{}{}:
	default:
	}
	return nil
}
func (c *srvScript) sendEOF() {
	c.mu.Lock()
	c.eof = true
	c.mu.Unlock()
	select {
	case c.wake <- struct{}{}:
	default:
	}
}
func (c *srvScript) LocalAddr() net.Addr  { return srvAddr{} }
func (c *srvScript) RemoteAddr() net.Addr { return srvAddr{} }
func (c *srvScript) SetDeadline(t time.Time) error {
	c.mu.Lock()
	c.rdl, c.wdl = t, t
	c.mu.Unlock()
	return nil
}
func (c *srvScript) SetReadDeadline(t time.Time) error {
	c.mu.Lock()
	c.rdl = t
	c.mu.Unlock()
	return nil
}
func (c *srvScript) SetWriteDeadline(t time.Time) error {
	c.mu.Lock()
	c.wdl = t
	c.mu.Unlock()
	return nil
}

func (c *srvScript) lastWasScripted() bool { return c.lastScripted }

// srvFailW makes one Write of the wrapped connection fail half way: the failAt-th Write call
// (from 0) hands only the first k bytes to the connection (ks < 0: all but the last one) and
// returns (k, os.ErrDeadlineExceeded), as a write that times out after the peer took part of it.
// Later Writes pass.
type srvFailW struct {
	net.Conn
	failAt, ks int
	nw         int
	failed     atomic.Bool
}

func (c *srvFailW) Write(p []byte) (int, error) {
	idx := c.nw
	c.nw++
	if idx != c.failAt {
		return c.Conn.Write(p)
	}
	k := c.ks
	if k < 0 {
		k = len(p) - 1
	}
	if k > len(p) {
		k = len(p)
	}
	n := 0
	if k > 0 {
		n, _ = c.Conn.Write(p[:k])
	}
	c.failed.Store(true)
	return n, os.ErrDeadlineExceeded
}
func (c *srvFailW) lastWasScripted() bool {
	if sc, ok := c.Conn.(interface{ lastWasScripted() bool }); ok {
		return sc.lastWasScripted()
	}
	return false
}

// srvSentinelTid: a transaction id whose scripted class returns one of the shared error sentinels
// (class 4 with code 4 or 0, class 7 wrapping the code-4 sentinel)
func srvSentinelTid(r *rng, used map[uint16]bool) uint16 {
	for {
		var t uint16
		switch r.intn(5) {
		case 0, 1:
			t = uint16(r.intn(32))<<11 | 4<<3 | 4
		case 2, 3:
			t = uint16(r.intn(32))<<11 | 0<<3 | 4
		default:
			t = uint16(r.intn(32))<<11 | 4<<3 | 7
		}
		if !used[t] {
			used[t] = true
			return t
		}
	}
}

// srvSentinelStream: 2..5 requests of different functions, units and transaction ids that all make
// the handler return a shared sentinel; now and then a normal request in between
func srvSentinelStream(r *rng) []byte {
	var s []byte
	used := map[uint16]bool{}
	n := 2 + r.intn(4)
	for i := 0; i < n; i++ {
		s = append(s, srvLegal(r, srvFcs[r.intn(10)], srvSentinelTid(r, used), 0)...)
		if r.intn(4) == 0 {
			s = append(s, srvLegal(r, srvFcs[r.intn(10)], srvTid(r, false)&^4, 0)...)
		}
	}
	return s
}

// ---------- a running real server ----------

type srvRig struct {
	srv      *server.Server
	lis      *srvListener
	nerr     atomic.Int64 // errors reported through OnErrorFunc, or lines of the default logger when it is unset
	served   chan error
	cfg      int  // which callbacks are set: 1 OnErrorFunc, 2 OnCloseConnFunc, 4 OnAcceptConnFunc, 8 OnServeFunc
	tagCfg   bool // cases carry cfg as an additional argument
	announce bool // child process: name the case on stderr before it runs, flush after it
	caseNo   int
	skip     int // child process: cases below this index are generated but not run
}

// the default-configured server reports connection errors through the standard logger; its output
// is redirected to a counter (one Write per log line) credited to the rig that is running
var srvLogTarget atomic.Pointer[atomic.Int64]

type srvLogWriter struct{}

func (srvLogWriter) Write(p []byte) (int, error) {
	if t := srvLogTarget.Load(); t != nil {
		t.Add(1)
	}
	return len(p), nil
}

func newSrvRig(mode int) *srvRig { return newSrvRigCfg(mode, 1) }

func newSrvRigCfg(mode, cfg int) *srvRig {
	g := &srvRig{lis: newSrvListener(), served: make(chan error, 1), cfg: cfg}
	log.SetOutput(srvLogWriter{})
	log.SetFlags(0)
	srvLogTarget.Store(&g.nerr)
	g.srv = &server.Server{}
	if cfg&1 != 0 {
		g.srv.OnErrorFunc = func(err error) { g.nerr.Add(1) }
	}
	if cfg&2 != 0 {
		g.srv.OnCloseConnFunc = func(ctx context.Context, remoteAddr net.Addr, isServerShutdown bool) {}
	}
	if cfg&4 != 0 {
		g.srv.OnAcceptConnFunc = func(ctx context.Context, remoteAddr net.Addr, connectionCount uint64) error { return nil }
	}
	if cfg&8 != 0 {
		g.srv.OnServeFunc = func(addr net.Addr) {}
	}
	if mode == 2 {
		g.srv.WriteTimeout = srvShortTimeout
	}
	go func() { g.served <- g.srv.Serve(context.Background(), g.lis, srvHandler{mode}) }()
	return g
}

// caseArgs appends the configuration when the rig's cases carry it
func (g *srvRig) caseArgs(args ...V) V {
	if g.tagCfg {
		args = append(args, I(g.cfg))
	}
	return L(args...)
}

// begin is called with the case as it is intended, before it runs: false = skip it.  In a child
// process the case is named on stderr first, so that the parent can attribute a crash.
func (g *srvRig) begin(entry string, intended V) bool {
	no := g.caseNo
	g.caseNo++
	if no < g.skip {
		return false
	}
	if g.announce {
		fmt.Fprintf(os.Stderr, "SRVCASE\t%d\t%s\t%s\n", no, entry, srvRender(intended))
	}
	return true
}
func (g *srvRig) end() {
	if g.announce {
		out.Flush()
	}
}

func (g *srvRig) stop() bool {
	ctx, cancel := context.WithTimeout(context.Background(), 5*time.Second)
	defer cancel()
	_ = g.srv.Shutdown(ctx)
	select {
	case err := <-g.served:
		return errors.Is(err, server.ErrServerClosed)
	case <-time.After(5 * time.Second):
		return false
	}
}

var errSrvTimeout = errors.New("harness: server did not react in time")

func srvWait(ch <-chan struct{}) error {
	select {
	case <-ch:
		return nil
	case <-time.After(10 * time.Second):
		return errSrvTimeout
	}
}

// srvClient is a client connected through net.Pipe; its reader goroutine collects what arrives
type srvClient struct {
	rec  *srvRec
	c    net.Conn
	got  []byte
	done chan struct{}
}

func (g *srvRig) dial() *srvClient { return g.dialW(nil) }

// dialW: wf (may be nil) makes one Write of the server side fail half way
func (g *srvRig) dialW(wf *srvFailW) *srvClient {
	cl, sv := net.Pipe()
	var side net.Conn = sv
	if wf != nil {
		wf.Conn = sv
		side = wf
	}
	k := &srvClient{rec: newSrvRec(side), c: cl, done: make(chan struct{})}
	g.lis.ch <- k.rec
	go func() {
		k.got, _ = io.ReadAll(cl)
		close(k.done)
	}()
	return k
}

// send writes one chunk; false when the server has closed the connection
func (k *srvClient) send(chunk []byte) bool {
	_ = k.c.SetWriteDeadline(time.Now().Add(10 * time.Second))
	_, err := k.c.Write(chunk)
	return err == nil
}

// barrier returns when the connection goroutine is back in conn.Read (an empty write on a
// net.Pipe completes only against a Read, which then returns 0, nil: the server's `continue`)
func (k *srvClient) barrier() bool { return k.send(nil) }

// finish closes the client side (unless the server already closed) and waits for the end
func (k *srvClient) finish() error {
	_ = k.c.Close()
	if err := srvWait(k.rec.closed); err != nil {
		return err
	}
	return srvWait(k.done)
}

// outcome of one connection: [[cumulative bytes after each read]; status; writes]
func (g *srvRig) connOutcome(rec *srvRec, nerrBefore int64) []V {
	rec.mu.Lock()
	defer rec.mu.Unlock()
	cums := make([]V, len(rec.cums))
	for i, c := range rec.cums {
		cums[i] = B(c)
	}
	st := 0
	if rec.closedByServer {
		st = 1
		if g.nerr.Load() > nerrBefore {
			st = 2
		}
	} else if g.nerr.Load() > nerrBefore {
		st = 90 // an error was reported on a connection the client closed
	}
	if rec.earlyWrite {
		st = 91
	}
	return []V{L(cums...), I(st), I(rec.nwrites)}
}

// srvReadsV: the recorded reads of a scripted connection as [bytes; came with a deadline error]
func srvReadsV(reads [][]byte, flags []bool) V {
	vs := make([]V, len(reads))
	for i, c := range reads {
		vs[i] = L(B(c), Bool(flags[i]))
	}
	return L(vs...)
}

func srvChunksV(chunks [][]byte) V {
	vs := make([]V, len(chunks))
	for i, c := range chunks {
		vs[i] = B(c)
	}
	return L(vs...)
}

func srvConcat(chunks [][]byte) []byte {
	var b []byte
	for _, c := range chunks {
		b = append(b, c...)
	}
	return b
}

// srvCut cuts b at the given ascending positions (0 < p < len(b))
func srvCut(b []byte, cuts []int) [][]byte {
	var out [][]byte
	prev := 0
	for _, p := range cuts {
		out = append(out, b[prev:p])
		prev = p
	}
	return append(out, b[prev:])
}

// one direct ReceiveRead of all bytes on a fresh assembler: [bytes; nil; status]
func srvWhole(mode int, all []byte) V {
	if mode == 2 {
		mode = 0 // the same handler without the delay
	}
	return srvDirectStep(&server.ModbusTCPAssembler{Handler: srvHandler{mode}}, all, nil, nil)
}

// srvDirectStep calls the real ReceiveRead; cum (may be nil) accumulates the returned bytes
// raw (may be nil) receives the returned slice itself, to be looked at again later
func srvDirectStep(a *server.ModbusTCPAssembler, chunk []byte, cum *[]byte, raw *[]byte) (res V) {
	var acc []byte
	if cum != nil {
		acc = *cum
	}
	defer func() {
		if r := recover(); r != nil {
			res = L(B(acc), Bool(true), I(2))
		}
	}()
	resp, closeConn := a.ReceiveRead(context.Background(), chunk, len(chunk))
	if raw != nil {
		*raw = resp
	}
	acc = append(append([]byte(nil), acc...), resp...)
	if cum != nil {
		*cum = acc
	}
	st := 0
	if closeConn {
		st = 1
	}
	return L(B(acc), Bool(resp == nil), I(st))
}
