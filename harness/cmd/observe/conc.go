package main

// Stream "conc": the runtime supporting run of C14 (EVIDENCE, not a theorem).
// One case = one run: N goroutines x M Do calls (mixed request types) on ONE client, with
// concurrent Close / Connect (serial client: Close / operator reopens the port) from two further
// goroutines, against the recording in-memory transport of conctransport.go.
// Kinds: 0 = modbus.Client with TCP framing, 1 = modbus.Client with RTU framing, 2 = SerialClient.
// Outcome: ok [whole, own, no_panic, serialised], or err [7] when the case did not finish within
// concHangBound (deadlock / livelock).  Every call is made under recover: a panic inside the
// library is counted, the case goes on and is emitted.
// Meant to be built with -race (the race detector is part of what the run exercises); works
// without it as well.

import (
	"bytes"
	"context"
	"net"
	"runtime"
	"sort"
	"sync"
	"sync/atomic"
	"time"

	modbus "github.com/aldas/go-modbus-client"
	"github.com/aldas/go-modbus-client/packet"
)

func init() { streams["conc"] = streamConc }

type concCall struct {
	g, k  int
	req   packet.Request
	bytes []byte
	// written by the calling goroutine, read by the judge: both under concRun's result mutex
	status int // 0 reply received, 1 error returned, 2 the call panicked, 3 never returned
	reply  []byte
}

// a case that has not finished after this long is emitted as a hang (cases take well under a
// second); after concMaxHangs hangs the rest of the stream is skipped: the run is already decided
// and every further case would cost the bound again
const concHangBound = 30 * time.Second
const concMaxHangs = 2

var concHangs int

// replies are available as soon as the request is written, so a short total read time-out only
// matters when a reply was lost
const concReadTimeout = 250 * time.Millisecond

// a request whose bytes are unique within the run: id goes into the transaction id (TCP) and
// into the start address (all kinds)
func concRequest(kind int, r *rng, id uint16) packet.Request {
	unit := uint8(1 + r.intn(4))
	tcp := kind == 0
	var req packet.Request
	var err error
	switch r.intn(5) {
	case 0:
		q := uint16(1 + r.intn(10))
		if tcp {
			var x *packet.ReadHoldingRegistersRequestTCP
			x, err = packet.NewReadHoldingRegistersRequestTCP(unit, id, q)
			if err == nil {
				x.TransactionID = id
				req = x
			}
		} else {
			req, err = nilIfErrC(packet.NewReadHoldingRegistersRequestRTU(unit, id, q))
		}
	case 1:
		q := uint16(1 + r.intn(10))
		if tcp {
			var x *packet.ReadInputRegistersRequestTCP
			x, err = packet.NewReadInputRegistersRequestTCP(unit, id, q)
			if err == nil {
				x.TransactionID = id
				req = x
			}
		} else {
			req, err = nilIfErrC(packet.NewReadInputRegistersRequestRTU(unit, id, q))
		}
	case 2:
		q := uint16(1 + r.intn(40))
		if tcp {
			var x *packet.ReadCoilsRequestTCP
			x, err = packet.NewReadCoilsRequestTCP(unit, id, q)
			if err == nil {
				x.TransactionID = id
				req = x
			}
		} else {
			req, err = nilIfErrC(packet.NewReadCoilsRequestRTU(unit, id, q))
		}
	case 3:
		data := r.bytes(2)
		if tcp {
			var x *packet.WriteSingleRegisterRequestTCP
			x, err = packet.NewWriteSingleRegisterRequestTCP(unit, id, data)
			if err == nil {
				x.TransactionID = id
				req = x
			}
		} else {
			req, err = nilIfErrC(packet.NewWriteSingleRegisterRequestRTU(unit, id, data))
		}
	default:
		data := r.bytes(2 * (1 + r.intn(4)))
		if tcp {
			var x *packet.WriteMultipleRegistersRequestTCP
			x, err = packet.NewWriteMultipleRegistersRequestTCP(unit, id, data)
			if err == nil {
				x.TransactionID = id
				req = x
			}
		} else {
			req, err = nilIfErrC(packet.NewWriteMultipleRegistersRequestRTU(unit, id, data))
		}
	}
	if err != nil {
		panic("conc: request constructor failed: " + err.Error())
	}
	return req
}

func nilIfErrC[T packet.Request](x T, err error) (packet.Request, error) {
	if err != nil {
		return nil, err
	}
	return x, nil
}

type concDoer interface {
	Do(ctx context.Context, req packet.Request) (packet.Response, error)
	Close() error
}

func concRun(kind int, r *rng, n, m int, nCloses int) {
	// everything random is drawn here, before any goroutine starts
	calls := make([][]*concCall, n)
	for g := 0; g < n; g++ {
		for k := 0; k < m; k++ {
			req := concRequest(kind, r, uint16(1+g*m+k))
			calls[g] = append(calls[g], &concCall{g: g, k: k, req: req, bytes: req.Bytes(), status: 3})
		}
	}
	thresholds := make([]int, nCloses)
	yields := make([]int, nCloses)
	delays := make([]int, nCloses)
	for i := range thresholds {
		thresholds[i] = r.intn(n*m + 1)
		yields[i] = r.intn(4)
		delays[i] = r.intn(36) // ms; serial client only: lands inside its 30 ms write-to-read pause
	}
	sort.Ints(thresholds)

	var cmu sync.Mutex
	var conns []*memConn
	newConn := func() *memConn {
		c := &memConn{kind: kind}
		cmu.Lock()
		conns = append(conns, c)
		cmu.Unlock()
		return c
	}

	ctx := context.Background()
	var client concDoer
	var connect func()
	switch kind {
	case 0, 1:
		conf := modbus.ClientConfig{ReadTimeout: concReadTimeout,
			DialContextFunc: func(ctx context.Context, address string) (net.Conn, error) {
				return newConn(), nil
			}}
		var c *modbus.Client
		if kind == 0 {
			c = modbus.NewTCPClientWithConfig(conf)
		} else {
			c = modbus.NewRTUClientWithConfig(conf)
		}
		connect = func() { _ = c.Connect(ctx, "mem") }
		connect()
		client = c
	default:
		port := newConn()
		client = modbus.NewSerialClient(port, modbus.WithSerialReadTimeout(concReadTimeout))
		connect = port.reopen // the operator plugs the device in again; not a library call
	}

	var panics, completed, abort int32
	var rmu sync.Mutex // results of the calls
	var wg sync.WaitGroup
	start := make(chan struct{})
	// one call, under recover: a panic inside the library is recorded and the goroutine goes on
	doOne := func(c *concCall) {
		defer atomic.AddInt32(&completed, 1)
		defer func() {
			if rec := recover(); rec != nil {
				atomic.AddInt32(&panics, 1)
				rmu.Lock()
				c.status = 2
				rmu.Unlock()
			}
		}()
		resp, err := client.Do(ctx, c.req)
		st, reply := 1, []byte(nil)
		if err == nil && resp != nil {
			st, reply = 0, resp.Bytes()
		}
		rmu.Lock()
		c.status, c.reply = st, reply
		rmu.Unlock()
	}
	guarded := func(f func()) {
		defer func() {
			if rec := recover(); rec != nil {
				atomic.AddInt32(&panics, 1)
			}
		}()
		f()
	}
	for g := 0; g < n; g++ {
		wg.Add(1)
		go func(mine []*concCall) {
			defer wg.Done()
			<-start
			for _, c := range mine {
				if atomic.LoadInt32(&abort) != 0 {
					return
				}
				doOne(c)
			}
		}(calls[g])
	}
	// concurrent Close / Connect at the drawn points of progress
	// (two such goroutines with the same schedule, so that Close / Connect calls also overlap each other)
	for closer := 0; closer < 2; closer++ {
		wg.Add(1)
		go func() {
			defer wg.Done()
			<-start
			for i, th := range thresholds {
				for int(atomic.LoadInt32(&completed)) < th && atomic.LoadInt32(&abort) == 0 {
					runtime.Gosched()
				}
				if atomic.LoadInt32(&abort) != 0 {
					return
				}
				if kind == 2 {
					time.Sleep(time.Duration(delays[i]) * time.Millisecond)
				}
				guarded(func() { _ = client.Close() })
				for y := 0; y < yields[i]; y++ {
					runtime.Gosched()
				}
				guarded(connect)
			}
		}()
	}
	close(start)
	// watchdog: a deadlocked or livelocked case is emitted as a hang instead of blocking the run
	done := make(chan struct{})
	go func() { wg.Wait(); close(done) }()
	hang := false
	select {
	case <-done:
	case <-time.After(concHangBound):
		hang = true
		atomic.StoreInt32(&abort, 1) // goroutines blocked inside the library are left behind
	}

	// ---- judge the record ----
	want := map[string]int{}
	own := true
	var callVals []V
	rmu.Lock()
	for g := 0; g < n; g++ {
		for _, c := range calls[g] {
			if c.status == 0 {
				want[string(c.bytes)]++
				if !bytes.Equal(c.reply, concReply(kind, c.bytes)) {
					own = false
				}
			}
			callVals = append(callVals, L(I(c.g), I(c.k), B(c.bytes), I(c.status), B(c.reply)))
		}
	}
	rmu.Unlock()
	whole, serialised := true, true
	var logVals, connVals []V
	cmu.Lock()
	all := append([]*memConn{}, conns...)
	cmu.Unlock()
	for _, c := range all {
		log, overlaps, midClose := c.snapshot()
		logVals = append(logVals, B(log))
		connVals = append(connVals, L(I(overlaps), I(midClose)))
		if overlaps != 0 || midClose != 0 {
			serialised = false
		}
		w := log
		for len(w) > 0 {
			k := concFrameLen(kind, w)
			if k == 0 {
				whole = false
				break
			}
			want[string(w[:k])]--
			w = w[k:]
		}
	}
	for _, v := range want {
		if v != 0 {
			whole = false
		}
	}
	np := int(atomic.LoadInt32(&panics))
	name := []string{"conc_tcp", "conc_rtu", "conc_serial"}[kind]
	args := L(I(kind), L(logVals...), L(callVals...), L(connVals...), I(np))
	if hang {
		concHangs++
		emit(name, args, vErr(I(7)))
		return
	}
	emit(name, args, vOk(Bool(whole), Bool(own), Bool(np == 0), Bool(serialised)))
}

func streamConc(seed uint64, thorough bool) {
	r := newRng(seed ^ 0xC14C14)
	runs, serialRuns := 80, 6
	if thorough {
		runs, serialRuns = 600, 40
	}
	for i := 0; i < runs && concHangs < concMaxHangs; i++ {
		kind := i % 2
		n := 2 + r.intn(7)  // 2..8 goroutines
		m := 1 + r.intn(20) // 1..20 calls each
		concRun(kind, r, n, m, r.intn(6))
	}
	// the serial client sleeps 30 ms per exchange: few and small runs; Close (and the operator
	// reopening the port) at several drawn points, also inside exchanges
	for i := 0; i < serialRuns && concHangs < concMaxHangs; i++ {
		concRun(2, r, 2+r.intn(3), 1+r.intn(4), r.intn(5))
	}
}
