package main

// Stream "conc": the runtime supporting run of C14 (EVIDENCE, not a theorem).
// One case = one run: N goroutines x M Do calls (mixed request types) on ONE client, with
// concurrent Close / Connect (serial client: Close / operator reopens the port) from two further
// goroutines, against the recording in-memory transport of conctransport.go.
// Kinds: 0 = modbus.Client with TCP framing, 1 = modbus.Client with RTU framing, 2 = SerialClient.
// Some cases use a SLOW DEVICE (replies readable 50 ms after the request, 8 goroutines queueing for
// the lock, client time-outs 50 + 400 ms: the wait for the lock exceeds the time-outs, the
// exchange itself does not); some attach a recording ClientHooks object that is deliberately NOT
// goroutine-safe (the library calls hooks only while it holds its lock).
// A further goroutine makes FAILING Connect calls on the shared, connected client (the dial function
// fails on demand: plain error, already cancelled context, error together with a typed-nil conn);
// a failed Connect has to leave the client exactly as it was.  Every case ends with a final Close.
// Outcome: ok [whole, own, no_panic, serialised, hooks_atomic, connect_atomic], or err [7] when the
// case did not finish within concHangBound (deadlock / livelock).  Every call is made under recover: a panic inside the
// library is counted, the case goes on and is emitted.
// Meant to be built with -race (the race detector is part of what the run exercises); works
// without it as well.

import (
	"bytes"
	"context"
	"errors"
	"net"
	"runtime"
	"sort"
	"sync"
	"sync/atomic"
	"time"

	modbus "github.com/aldas/go-modbus-client"
	"github.com/aldas/go-modbus-client/packet"
)

func init() { streams["conc"] = streamConc }

// total length of the error texts the callers formatted (only there so that the formatting is done)
var errTextLen atomic.Int64

type concCall struct {
	g, k  int
	req   packet.Request
	bytes []byte
	// > 0: the call is made with a context that ends after that many ms and is addressed to the unit
	// that never answers: the caller abandons it (while queued for the client, or mid-exchange)
	ctxMs int
	// pause of the caller before it makes this call (deterministic cases)
	pauseMs int
	// the request goes to the unit that answers with an over-long frame: the call has to fail (with
	// the client's too-long error) and nothing else may be disturbed
	tooLong bool
	// the call is expected to PANIC inside the library while it holds the client's lock, and the
	// caller recovers: 1 = the user's hook panics (request to the hook's panic unit), 2 = the request
	// is a typed-nil pointer whose Bytes() panics.  Everybody else has to be served afterwards.
	panics int
	// written by the calling goroutine, read by the judge: both under concRun's result mutex
	status int // 0 reply received, 1 error returned, 2 the call panicked, 3 never returned
	reply  []byte
}

// a case that has not finished after this long is emitted as a hang (cases take well under a
// second); after concMaxHangs hangs the rest of the stream is skipped: the run is already decided
// and every further case would cost the bound again
const concHangBound = 30 * time.Second
const concMaxHangs = 2

var concHangs int

// replies are available as soon as the request is written, so a short total read time-out only
// matters when a reply was lost
const concReadTimeout = 500 * time.Millisecond

// a request whose bytes are unique within the run: id goes into the transaction id (TCP) and
// into the start address (all kinds)
func concRequest(kind int, r *rng, id uint16, special int) packet.Request {
	unit := uint8(1 + r.intn(4))
	if special != 0 {
		unit = uint8(special)
	}
	tcp := kind == 0
	var req packet.Request
	var err error
	switch r.intn(5) {
	case 0:
		q := uint16(1 + r.intn(10))
		if tcp {
			var x *packet.ReadHoldingRegistersRequestTCP
			x, err = packet.NewReadHoldingRegistersRequestTCP(unit, id, q)
			if err == nil {
				x.TransactionID = id
				req = x
			}
		} else {
			req, err = nilIfErrC(packet.NewReadHoldingRegistersRequestRTU(unit, id, q))
		}
	case 1:
		q := uint16(1 + r.intn(10))
		if tcp {
			var x *packet.ReadInputRegistersRequestTCP
			x, err = packet.NewReadInputRegistersRequestTCP(unit, id, q)
			if err == nil {
				x.TransactionID = id
				req = x
			}
		} else {
			req, err = nilIfErrC(packet.NewReadInputRegistersRequestRTU(unit, id, q))
		}
	case 2:
		q := uint16(1 + r.intn(40))
		if tcp {
			var x *packet.ReadCoilsRequestTCP
			x, err = packet.NewReadCoilsRequestTCP(unit, id, q)
			if err == nil {
				x.TransactionID = id
				req = x
			}
		} else {
			req, err = nilIfErrC(packet.NewReadCoilsRequestRTU(unit, id, q))
		}
	case 3:
		data := r.bytes(2)
		if tcp {
			var x *packet.WriteSingleRegisterRequestTCP
			x, err = packet.NewWriteSingleRegisterRequestTCP(unit, id, data)
			if err == nil {
				x.TransactionID = id
				req = x
			}
		} else {
			req, err = nilIfErrC(packet.NewWriteSingleRegisterRequestRTU(unit, id, data))
		}
	default:
		data := r.bytes(2 * (1 + r.intn(4)))
		if tcp {
			var x *packet.WriteMultipleRegistersRequestTCP
			x, err = packet.NewWriteMultipleRegistersRequestTCP(unit, id, data)
			if err == nil {
				x.TransactionID = id
				req = x
			}
		} else {
			req, err = nilIfErrC(packet.NewWriteMultipleRegistersRequestRTU(unit, id, data))
		}
	}
	if err != nil {
		panic("conc: request constructor failed: " + err.Error())
	}
	return req
}

// requests of one shape (read 2 holding registers of an answering unit): the reply to one parses as
// the reply to another, the data (derived from the address) tells them apart
func concRequestFC3(kind int, r *rng, id uint16) packet.Request {
	unit := uint8(1 + r.intn(4))
	if kind == 0 {
		x, err := packet.NewReadHoldingRegistersRequestTCP(unit, id, 2)
		if err != nil {
			panic("conc: request constructor failed: " + err.Error())
		}
		x.TransactionID = id
		return x
	}
	x, err := packet.NewReadHoldingRegistersRequestRTU(unit, id, 2)
	if err != nil {
		panic("conc: request constructor failed: " + err.Error())
	}
	return x
}

// a request value that is not nil but holds a nil pointer: Do's nil check passes, Bytes() panics
func concTypedNil(kind int) packet.Request {
	if kind == 0 {
		var r *packet.ReadHoldingRegistersRequestTCP
		return r
	}
	var r *packet.ReadHoldingRegistersRequestRTU
	return r
}

func nilIfErrC[T packet.Request](x T, err error) (packet.Request, error) {
	if err != nil {
		return nil, err
	}
	return x, nil
}

type concDoer interface {
	Do(ctx context.Context, req packet.Request) (packet.Response, error)
	Close() error
}

// concHooks records the hook calls of one case.  Deliberately NOT goroutine-safe: no mutex, no
// atomics.  The library calls its hooks only while it holds the client's lock, so on a correct
// library the calls are serialised by that lock (and -race stays silent).  Memory-safe even when
// raced: the backing array is allocated once and never grows, records are fixed-size values.
type concHookRec struct {
	tag  int // 0 BeforeWrite, 1 AfterEachRead, 2 BeforeParse
	n    int
	data [300]byte
}

type concHooks struct {
	kind     int
	recs     []concHookRec
	overflow bool
}

func newConcHooks(capacity int) *concHooks {
	return &concHooks{recs: make([]concHookRec, 0, capacity)}
}

func (h *concHooks) add(tag int, b []byte) {
	k := len(h.recs)
	if k >= cap(h.recs) {
		h.overflow = true
		return
	}
	h.recs = h.recs[:k+1]
	h.recs[k].tag = tag
	h.recs[k].n = copy(h.recs[k].data[:], b)
}

// a user hook with a bug: it panics on requests to unit 96 (before it records anything)
func (h *concHooks) BeforeWrite(toWrite []byte) {
	if concUnit(h.kind, toWrite) == concPanicUnit {
		panic("hook: cannot handle this request")
	}
	h.add(0, toWrite)
}
func (h *concHooks) AfterEachRead(received []byte, n int, err error) {
	if n > 0 { // reads that time out with nothing are not recorded
		h.add(1, received)
	}
}
func (h *concHooks) BeforeParse(received []byte) { h.add(2, received) }

// hooksAtomic: the trace is a concatenation of per-call blocks
// [BeforeWrite req; AfterEachRead chunk ...; BeforeParse reply] (the BeforeParse only when the
// exchange succeeded), the chunks of a block add up to its reply, the reply is the one to the
// block's own request, and the completed blocks are exactly the successful calls.
func hooksAtomic(kind int, h *concHooks, okReqs map[string]int) bool {
	if h.overflow {
		return false
	}
	want := map[string]int{}
	for k, v := range okReqs {
		want[k] = v
	}
	i, n := 0, len(h.recs)
	for i < n {
		if h.recs[i].tag != 0 {
			return false
		}
		req := h.recs[i].data[:h.recs[i].n]
		i++
		var chunks []byte
		for i < n && h.recs[i].tag == 1 {
			chunks = append(chunks, h.recs[i].data[:h.recs[i].n]...)
			i++
		}
		if i < n && h.recs[i].tag == 2 {
			reply := h.recs[i].data[:h.recs[i].n]
			i++
			if !bytes.Equal(reply, concReply(kind, req)) || !bytes.Equal(chunks, reply) {
				return false
			}
			want[string(req)]--
		}
	}
	for _, v := range want {
		if v != 0 {
			return false
		}
	}
	return true
}

type concOpts struct {
	n, m, nCloses int
	nFailed       int           // failing Connect calls made while the client is connected and shared
	abandonPct    int           // share of calls that are abandoned by their caller (see concCall.ctxMs)
	ctxLo, ctxHi  int           // ms: range of their context time-outs
	blockRead     time.Duration // the transport's Read blocks this long when there is nothing to read
	// abandoned calls are addressed to a unit that DOES answer (known finding KF-C14-1: the reply an
	// abandoned call leaves behind is read by the next caller); all requests then have one shape
	answering bool
	// deterministic witness of KF-C14-1: one caller; call 0 has a context of 20 ms on a device that
	// answers after 150 ms; the caller then pauses 400 ms (the late reply has arrived) and makes call 1
	det bool
	// share of calls addressed to the unit that answers with 265 bytes
	longPct int
	// call 0 of goroutine 0 goes to the unit whose reply is completed 2 ms after the read time-out
	brink bool
	// share of calls that panic inside the library (hook panic / typed-nil request), recovered by the caller
	panicPct     int
	latency      time.Duration // slow device
	readTimeout  time.Duration
	writeTimeout time.Duration
	hooked       bool
}

type concResult struct {
	name    string
	args    V
	outcome V
	hang    bool
}

func concRun(kind int, r *rng, o concOpts) concResult {
	n, m, nCloses := o.n, o.m, o.nCloses
	// everything random is drawn here, before any goroutine starts
	calls := make([][]*concCall, n)
	for g := 0; g < n; g++ {
		for k := 0; k < m; k++ {
			ctxMs, pauseMs := 0, 0
			if o.abandonPct > 0 && r.intn(100) < o.abandonPct {
				ctxMs = o.ctxLo + r.intn(o.ctxHi-o.ctxLo+1)
			}
			if o.det {
				if k == 0 {
					ctxMs = 20
				} else {
					pauseMs = 400
				}
			}
			special := 0
			switch {
			case ctxMs > 0:
				special = concSilentUnit
			case o.longPct > 0 && r.intn(100) < o.longPct:
				special = concLongUnit
			case o.brink && g == 0 && k == 0:
				special = concBrinkUnit
			}
			pk := 0
			if o.panicPct > 0 && special == 0 && r.intn(100) < o.panicPct {
				pk = 1 + r.intn(2)
				if pk == 1 {
					special = concPanicUnit
				}
			}
			if pk == 2 {
				calls[g] = append(calls[g], &concCall{g: g, k: k, req: concTypedNil(kind), status: 3, panics: 2})
				continue
			}
			var req packet.Request
			if o.answering {
				req = concRequestFC3(kind, r, uint16(1+g*m+k))
			} else {
				req = concRequest(kind, r, uint16(1+g*m+k), special)
			}
			calls[g] = append(calls[g], &concCall{g: g, k: k, req: req, bytes: req.Bytes(), status: 3, ctxMs: ctxMs,
				pauseMs: pauseMs, tooLong: special == concLongUnit, panics: pk})
		}
	}
	thresholds := make([]int, nCloses)
	yields := make([]int, nCloses)
	delays := make([]int, nCloses)
	for i := range thresholds {
		thresholds[i] = r.intn(n*m + 1)
		yields[i] = r.intn(4)
		delays[i] = r.intn(36) // ms; serial client only: lands inside its 30 ms write-to-read pause
	}
	sort.Ints(thresholds)
	if kind == 2 {
		o.nFailed = 0 // the serial client has no Connect
	}
	failAt := make([]int, o.nFailed)
	failHow := make([]int, o.nFailed)
	for i := range failAt {
		failAt[i] = r.intn(n*m + 1)
		failHow[i] = r.intn(3) // 0 plain error, 1 context already cancelled, 2 error with a typed-nil conn
	}
	sort.Ints(failAt)
	// without Close / Connect from the closers nothing may fail: every call has to be served
	strict := nCloses == 0

	var inDo int32 // Do calls in progress on the client
	var cmu sync.Mutex
	var conns []*memConn
	newConn := func() *memConn {
		c := &memConn{kind: kind, latency: o.latency, blockRead: o.blockRead, inDo: &inDo,
			brinkAfter: o.readTimeout + 2*time.Millisecond}
		cmu.Lock()
		conns = append(conns, c)
		cmu.Unlock()
		return c
	}

	var hooks *concHooks
	var hooksIface modbus.ClientHooks // stays a nil interface when the case has no hooks
	if o.hooked {
		hooks = newConcHooks(16*n*m + 64)
		hooks.kind = kind
		hooksIface = hooks
	}
	ctx := context.Background()
	var client concDoer
	var connect func()
	failConnect := func(how int) error { return errors.New("no Connect") }
	switch kind {
	case 0, 1:
		conf := modbus.ClientConfig{ReadTimeout: o.readTimeout, WriteTimeout: o.writeTimeout, Hooks: hooksIface,
			DialContextFunc: func(ctx context.Context, address string) (net.Conn, error) {
				// same contract as net.Dialer.DialContext: no conn when the context is done
				if err := ctx.Err(); err != nil {
					return nil, err
				}
				switch address {
				case "fail:plain":
					return nil, errors.New("dial refused")
				case "fail:typednil":
					var none *memConn // a nil pointer inside a non-nil interface value
					return none, errors.New("dial refused")
				}
				return newConn(), nil
			}}
		var c *modbus.Client
		if kind == 0 {
			c = modbus.NewTCPClientWithConfig(conf)
		} else {
			c = modbus.NewRTUClientWithConfig(conf)
		}
		connect = func() { _ = c.Connect(ctx, "mem") }
		connect()
		client = c
		failConnect = func(how int) error {
			switch how {
			case 1:
				cctx, cancel := context.WithCancel(ctx)
				cancel()
				return c.Connect(cctx, "mem")
			case 2:
				return c.Connect(ctx, "fail:typednil")
			}
			return c.Connect(ctx, "fail:plain")
		}
	default:
		port := newConn()
		opts := []modbus.SerialClientOptionFunc{modbus.WithSerialReadTimeout(o.readTimeout)}
		if o.hooked {
			opts = append(opts, modbus.WithSerialHooks(hooksIface))
		}
		client = modbus.NewSerialClient(port, opts...)
		connect = port.reopen // the operator plugs the device in again; not a library call
	}

	var panics, completed, abort, failedDone, failedNoErr int32
	var rmu sync.Mutex // results of the calls
	var wg sync.WaitGroup
	start := make(chan struct{})
	// one call, under recover: a panic inside the library is recorded and the goroutine goes on
	doOne := func(c *concCall) {
		defer atomic.AddInt32(&completed, 1)
		defer func() {
			if rec := recover(); rec != nil {
				if c.panics == 0 {
					atomic.AddInt32(&panics, 1) // a panic nobody asked for
				}
				rmu.Lock()
				c.status = 2
				rmu.Unlock()
			}
		}()
		cctx := ctx
		if c.ctxMs > 0 {
			var cancel context.CancelFunc
			cctx, cancel = context.WithTimeout(ctx, time.Duration(c.ctxMs)*time.Millisecond)
			defer cancel()
		}
		atomic.AddInt32(&inDo, 1)
		resp, err := func() (packet.Response, error) {
			defer atomic.AddInt32(&inDo, -1)
			return client.Do(cctx, c.req)
		}()
		st, reply := 1, []byte(nil)
		if err == nil && resp != nil {
			st, reply = 0, resp.Bytes()
		}
		if err != nil {
			// what a caller does with an error, after Do has returned and outside any lock of the
			// client: format it (other goroutines are inside Do meanwhile)
			errTextLen.Add(int64(len(err.Error())))
		}
		rmu.Lock()
		c.status, c.reply = st, reply
		rmu.Unlock()
	}
	guarded := func(f func()) {
		defer func() {
			if rec := recover(); rec != nil {
				atomic.AddInt32(&panics, 1)
			}
		}()
		f()
	}
	for g := 0; g < n; g++ {
		wg.Add(1)
		go func(mine []*concCall) {
			defer wg.Done()
			<-start
			for _, c := range mine {
				if atomic.LoadInt32(&abort) != 0 {
					return
				}
				if c.pauseMs > 0 {
					time.Sleep(time.Duration(c.pauseMs) * time.Millisecond)
				}
				doOne(c)
			}
		}(calls[g])
	}
	// concurrent Close / Connect at the drawn points of progress
	// (two such goroutines with the same schedule, so that Close / Connect calls also overlap each other)
	for closer := 0; closer < 2; closer++ {
		wg.Add(1)
		go func() {
			defer wg.Done()
			<-start
			for i, th := range thresholds {
				for int(atomic.LoadInt32(&completed)) < th && atomic.LoadInt32(&abort) == 0 {
					runtime.Gosched()
				}
				if atomic.LoadInt32(&abort) != 0 {
					return
				}
				if kind == 2 {
					time.Sleep(time.Duration(delays[i]) * time.Millisecond)
				}
				guarded(func() { _ = client.Close() })
				for y := 0; y < yields[i]; y++ {
					runtime.Gosched()
				}
				guarded(connect)
			}
		}()
	}
	// failing Connect calls while the client is connected and shared
	if o.nFailed > 0 {
		wg.Add(1)
		go func() {
			defer wg.Done()
			<-start
			for i, th := range failAt {
				for int(atomic.LoadInt32(&completed)) < th && atomic.LoadInt32(&abort) == 0 {
					runtime.Gosched()
				}
				if atomic.LoadInt32(&abort) != 0 {
					return
				}
				guarded(func() {
					if failConnect(failHow[i]) == nil {
						atomic.AddInt32(&failedNoErr, 1)
					}
				})
				atomic.AddInt32(&failedDone, 1)
			}
		}()
	}
	close(start)
	// watchdog: a deadlocked or livelocked case is emitted as a hang instead of blocking the run
	done := make(chan struct{})
	go func() {
		wg.Wait()
		guarded(func() { _ = client.Close() }) // the final Close of the case
		close(done)
	}()
	hang := false
	select {
	case <-done:
	case <-time.After(concHangBound):
		hang = true
		atomic.StoreInt32(&abort, 1) // goroutines blocked inside the library are left behind
	}

	// ---- judge the record ----
	want := map[string]int{}
	own, allServed := true, true
	abandonable := map[string]bool{}
	var callVals []V
	rmu.Lock()
	for g := 0; g < n; g++ {
		for _, c := range calls[g] {
			abandon := 0
			if c.ctxMs > 0 {
				abandon = 1
				abandonable[string(c.bytes)] = true
			} else if c.panics > 0 {
				abandon = 3 // expected to panic inside the library; the caller recovers
				if c.status != 2 {
					allServed = false
				}
			} else if c.tooLong {
				abandon = 2 // not abandoned by the caller: the device's answer cannot be accepted
				abandonable[string(c.bytes)] = true
				if c.status == 0 {
					allServed = false // an over-long frame was accepted
				}
			} else if c.status != 0 {
				allServed = false // a call nobody abandoned was not served
			}
			if c.status == 0 {
				want[string(c.bytes)]++
				if !bytes.Equal(c.reply, concReply(kind, c.bytes)) {
					own = false
				}
			}
			callVals = append(callVals, L(I(c.g), I(c.k), B(c.bytes), I(c.status), B(c.reply), I(abandon)))
		}
	}
	rmu.Unlock()
	whole, serialised, lastClosed := true, true, false
	var logVals, connVals []V
	cmu.Lock()
	all := append([]*memConn{}, conns...)
	cmu.Unlock()
	for _, c := range all {
		log, overlaps, midClose, outsideDo, closed := c.snapshot()
		logVals = append(logVals, B(log))
		connVals = append(connVals, L(I(overlaps), I(midClose), Bool(closed), I(outsideDo)))
		lastClosed = closed
		if overlaps != 0 || midClose != 0 || outsideDo != 0 {
			serialised = false
		}
		w := log
		for len(w) > 0 {
			k := concFrameLen(kind, w)
			if k == 0 {
				whole = false
				break
			}
			want[string(w[:k])]--
			w = w[k:]
		}
	}
	for k, v := range want {
		// every served request is on the wire exactly once; an abandoned request may be (its caller
		// gave up after writing it) or may not be (gave up before); nothing else is
		if v != 0 && !(v == -1 && abandonable[k]) {
			whole = false
		}
	}
	np := int(atomic.LoadInt32(&panics))
	name := []string{"conc_tcp", "conc_rtu", "conc_serial"}[kind]
	// the hook trace is only read when every goroutine of the case has finished
	atomicHooks := true
	var traceVals []V
	if hooks != nil && !hang {
		okReqs := map[string]int{}
		rmu.Lock()
		for g := 0; g < n; g++ {
			for _, c := range calls[g] {
				if c.status == 0 {
					okReqs[string(c.bytes)]++
				}
			}
		}
		rmu.Unlock()
		atomicHooks = hooksAtomic(kind, hooks, okReqs)
		for i := range hooks.recs {
			rec := &hooks.recs[i]
			traceVals = append(traceVals, L(I(rec.tag), B(rec.data[:rec.n])))
		}
		if hooks.overflow {
			traceVals = append(traceVals, L(I(9), B(nil))) // more hook calls than a correct run can make
		}
	}
	hk := 0
	if o.hooked {
		hk = 1
	}
	// connect_atomic: a failed Connect left the client as it was -- the failing calls did return an
	// error, the final Close closed the connection dialled last (the one the client must still hold),
	// and, when nobody closes or reconnects, every call was served
	nf, nfNoErr := int(atomic.LoadInt32(&failedDone)), int(atomic.LoadInt32(&failedNoErr))
	connectAtomic := lastClosed && nfNoErr == 0 && (!strict || allServed)
	args := L(I(kind), L(logVals...), L(callVals...), L(connVals...), I(np),
		L(I(int(o.latency/time.Millisecond)), I(hk)), L(traceVals...), L(Bool(strict), I(nf), I(nfNoErr), Bool(o.answering)))
	if hang {
		return concResult{name, args, vErr(I(7)), true}
	}
	return concResult{name, args, vOk(Bool(whole), Bool(own), Bool(np == 0), Bool(serialised), Bool(atomicHooks), Bool(connectAtomic)), false}
}

func concEmit(res concResult) {
	if res.hang {
		concHangs++
	}
	emit(res.name, res.args, res.outcome)
}

func streamConc(seed uint64, thorough bool) {
	r := newRng(seed ^ 0xC14C14)
	runs, serialRuns, slowRuns, failRuns, detRuns := 80, 6, 6, 16, 9
	if thorough {
		runs, serialRuns, slowRuns, failRuns, detRuns = 600, 40, 40, 120, 30
	}
	for i := 0; i < runs && concHangs < concMaxHangs; i++ {
		kind := i % 2
		n := 2 + r.intn(7)  // 2..8 goroutines
		m := 1 + r.intn(20) // 1..20 calls each
		concEmit(concRun(kind, r, concOpts{n: n, m: m, nCloses: r.intn(6), nFailed: r.intn(3),
			readTimeout: concReadTimeout, hooked: i%4 >= 2}))
	}
	// failed Connect while connected and shared: nobody closes or reconnects, a goroutine makes
	// failing Connect calls; every call has to be served and the final Close has to close the
	// one connection there is
	for i := 0; i < failRuns && concHangs < concMaxHangs; i++ {
		concEmit(concRun(i%2, r, concOpts{n: 2 + r.intn(5), m: 5 + r.intn(16), nCloses: 0, nFailed: 1 + r.intn(4),
			readTimeout: concReadTimeout, hooked: i%4 >= 2}))
	}
	// the serial client sleeps 30 ms per exchange: few and small runs; Close (and the operator
	// reopening the port) at several drawn points, also inside exchanges
	for i := 0; i < serialRuns && concHangs < concMaxHangs; i++ {
		concEmit(concRun(2, r, concOpts{n: 2 + r.intn(3), m: 1 + r.intn(4), nCloses: r.intn(5),
			readTimeout: concReadTimeout, hooked: i%2 == 1}))
	}
	// The remaining cases take long per exchange; they run in parallel (each on its own client and
	// transport, with a PRNG split off the run's one PRNG) and are emitted in order.
	//  - slow device: 8 goroutines queue for the lock, 50 ms per exchange, time-outs 50 + 400 ms: the
	//    wait for the lock (up to 15 exchanges = 750 ms) is longer than write + read time-out, the
	//    exchange itself is 8 times shorter than the read time-out.  Every call has to be served.
	//  - slow device + callers that give up: a third of the calls carry a context of 20..80 ms and
	//    go to the unit that never answers; they end while the caller is still queued for the client
	//    or waits for the reply.  Everybody else has to be served, one at a time, with own replies.
	//  - serial port whose Read really blocks (100 ms) + callers that give up mid-read (context of
	//    40..90 ms, i.e. after the 30 ms write-to-read pause): nothing of an abandoned call may
	//    still be going on at the port when Do has returned; everybody else is served.
	if concHangs >= concMaxHangs {
		return
	}
	type job struct {
		kind int
		o    concOpts
	}
	var jobs []job
	for i := 0; i < slowRuns; i++ {
		jobs = append(jobs, job{i % 2, concOpts{n: 8, m: 2, latency: 50 * time.Millisecond,
			readTimeout: 400 * time.Millisecond, writeTimeout: 50 * time.Millisecond}})
	}
	for i := 0; i < slowRuns; i++ {
		jobs = append(jobs, job{i % 2, concOpts{n: 6, m: 3, latency: 50 * time.Millisecond,
			readTimeout: 400 * time.Millisecond, writeTimeout: 50 * time.Millisecond,
			abandonPct: 33, ctxLo: 20, ctxHi: 80, hooked: i%4 >= 2}})
	}
	for i := 0; i < slowRuns; i++ {
		jobs = append(jobs, job{2, concOpts{n: 3, m: 3, readTimeout: concReadTimeout,
			blockRead: 100 * time.Millisecond, abandonPct: 33, ctxLo: 40, ctxHi: 90, hooked: i%2 == 1}})
	}
	//  - over-long replies: a third of the calls go to a unit that answers with 265 bytes; they fail
	//    with the client's too-long error, which the callers format while others are inside Do
	//    (several clients at once: the cases of this batch run concurrently); nothing else changes
	//  - panics inside the library while it holds the lock (a user hook that panics, a typed-nil
	//    request), recovered by the caller: the lock must have been released, everybody else is served
	for i := 0; i < slowRuns; i++ {
		jobs = append(jobs, job{i % 3, concOpts{n: 3, m: 4, panicPct: 30, readTimeout: concReadTimeout, hooked: true}})
	}
	//  - brink: the reply to the first call is completed 2 ms AFTER the client's read time-out has
	//    elapsed, by a Read that was entered before; the call and all later ones are served
	for i := 0; i < slowRuns; i++ {
		jobs = append(jobs, job{i % 2, concOpts{n: 4, m: 6, longPct: 33, readTimeout: concReadTimeout, hooked: i%4 >= 2}})
	}
	for i := 0; i < slowRuns; i++ {
		jobs = append(jobs, job{i % 2, concOpts{n: 2, m: 3, brink: true, readTimeout: 100 * time.Millisecond, hooked: i%4 >= 2}})
	}
	// known finding KF-C14-1 (the case input says: abandoned calls go to an ANSWERING unit)
	//  - deterministic witness, every kind: one caller, call 0 abandoned after 20 ms on a device that
	//    answers after 150 ms, 400 ms pause, call 1 of the same shape: reads call 0's reply
	//  - the giving-up callers of above on a device where every unit answers
	for i := 0; i < detRuns; i++ {
		jobs = append(jobs, job{i % 3, concOpts{n: 1, m: 2, latency: 150 * time.Millisecond,
			readTimeout: 1000 * time.Millisecond, writeTimeout: 50 * time.Millisecond, answering: true, det: true}})
	}
	for i := 0; i < slowRuns; i++ {
		jobs = append(jobs, job{i % 2, concOpts{n: 6, m: 3, latency: 50 * time.Millisecond,
			readTimeout: 400 * time.Millisecond, writeTimeout: 50 * time.Millisecond,
			abandonPct: 33, ctxLo: 20, ctxHi: 80, answering: true}})
	}
	results := make([]concResult, len(jobs))
	var wg sync.WaitGroup
	for i, j := range jobs {
		sub := newRng(r.next())
		wg.Add(1)
		go func(i int, j job, sub *rng) {
			defer wg.Done()
			results[i] = concRun(j.kind, sub, j.o)
		}(i, j, sub)
	}
	wg.Wait()
	for _, res := range results {
		concEmit(res)
	}
}
