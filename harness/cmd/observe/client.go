package main

// Client layer (C07, C08, C12, C19): the REAL modbus.Client is driven through
// ClientConfig.DialContextFunc returning a scripted in-memory net.Conn, the REAL
// modbus.SerialClient through a scripted io.ReadWriteCloser.  Every Read call consumes one step
// of the script.  Hooks and transport share one recorder, so the trace is totally ordered; hook
// arguments are copied at call time.  See coq/DispClient.v for the case format.

import (
	"context"
	"errors"
	"fmt"
	"io"
	"net"
	"os"
	"sync"
	"syscall"
	"time"

	modbus "github.com/aldas/go-modbus-client"
	"github.com/aldas/go-modbus-client/packet"
)

var (
	clntErrSWD   = errors.New("scripted: SetWriteDeadline fails")
	clntErrWrite = errors.New("scripted: Write fails")
	clntErrRead  = errors.New("scripted: Read fails")
	clntErrFlush = errors.New("scripted: Flush fails")
)

const (
	clntRdData    = iota
	clntRdTimeout // *net.OpError{Err: os.ErrDeadlineExceeded}: has Timeout() == true
	clntRdEOF
	clntRdIOErr
	clntRdTimeoutBare    // os.ErrDeadlineExceeded itself
	clntRdTimeoutWrapped // fmt.Errorf("...: %w", os.ErrDeadlineExceeded): no Timeout method
	clntRdEOFWrapped     // fmt.Errorf("...: %w", io.EOF)
	// a hard I/O failure that says Timeout() == true but is not a read deadline:
	// &net.OpError{Err: os.NewSyscallError("read", syscall.ETIMEDOUT)}
	clntRdIOErrTimeout
)

// the total read timeout configured when the script contains a "timer fired" step, and how long
// after its expiry the blocked Read returns
const (
	clntTimerT           = 400 * time.Millisecond
	clntTimerMargin      = 200 * time.Millisecond
	clntSerialSleep      = 30 * time.Millisecond
	clntCtxDeadline0     = 200 * time.Millisecond // the caller's own deadline (doubled on every retry)
	clntCtxMargin        = 40 * time.Millisecond
	clntShortReadTimeout = 20 * time.Millisecond
)

type clntStep struct {
	ctx         int // 0 not done, 1 the caller cancelled, 2 the caller's own deadline expired
	timer, pick bool
	rd          int
	data        []byte        // returned together with the error, whatever it is
	gap         time.Duration // the Read takes this long (a device that trickles its bytes); timing only
}

type clntScript struct {
	swd, wr, fl bool
	short       int           // > 0: Write takes only this many bytes per call and returns (short, nil)
	maxElapsed  time.Duration // > 0: a call that takes longer counts as not returning (trickle cases)
	steps       []clntStep
	timerT      time.Duration // the ReadTimeout to configure when the script has a timer step (0: clntTimerT)
	gate        *clntGate     // stream cpar: every Read waits for the other clients of the batch
}

func (s clntScript) val() V {
	st := make([]V, len(s.steps))
	for i, x := range s.steps {
		st[i] = L(I(x.ctx), Bool(x.timer), Bool(x.pick), I(x.rd), B(x.data))
	}
	wr := I(0)
	if s.wr {
		wr = I(1)
	} else if s.short > 0 {
		wr = I(2 + s.short)
	}
	return L(Bool(s.swd), wr, Bool(s.fl), L(st...))
}

func (s clntScript) hasTimer() bool {
	for _, x := range s.steps {
		if x.timer {
			return true
		}
	}
	return false
}

func clntData(b []byte) clntStep  { return clntStep{rd: clntRdData, data: b} }
func clntQuiet() clntStep         { return clntStep{rd: clntRdTimeout} }
func clntEOF(b []byte) clntStep   { return clntStep{rd: clntRdEOF, data: b} }
func clntIOErr(b []byte) clntStep { return clntStep{rd: clntRdIOErr, data: b} }
func clntTimer() clntStep         { return clntStep{timer: true, rd: clntRdTimeout} }
func clntCtx() clntStep           { return clntStep{ctx: 1, rd: clntRdTimeout} }
func clntCtxDeadline() clntStep   { return clntStep{ctx: 2, rd: clntRdTimeout} }

// a chunk delivered together with the read deadline error
func clntLate(b []byte) clntStep { return clntStep{rd: clntRdTimeout, data: b} }

// the index of the first step at which the caller's own deadline has expired, or -1
func (s clntScript) deadlineStep() int {
	for i, x := range s.steps {
		if x.ctx == 2 {
			return i
		}
	}
	return -1
}

// clntRollingReq is a user-defined packet.Request (wrapping a real one) whose Bytes() is not
// idempotent: the k-th call returns the bytes with the first byte increased by k-1.  Every call is
// recorded in the trace as [7].
type clntRollingReq struct {
	packet.Request
	calls int
	rec   *clntRec
}

func (r *clntRollingReq) Bytes() []byte {
	r.calls++
	if r.rec != nil {
		r.rec.add(L(I(7)))
	}
	b := append([]byte(nil), r.Request.Bytes()...)
	b[0] += byte(r.calls - 1)
	return b
}

// clntGate is a cyclic barrier for the clients of one cpar batch: a Read returns only when all of
// them have reached their Read (or after a short time, if one of them has left early), so that all
// calls are inside Do at the same time
type clntGate struct {
	mu      sync.Mutex
	n       int
	arrived int
	ch      chan struct{}
}

func clntNewGate(n int) *clntGate { return &clntGate{n: n, ch: make(chan struct{})} }

func (g *clntGate) wait() {
	g.mu.Lock()
	g.arrived++
	ch := g.ch
	if g.arrived >= g.n {
		g.arrived = 0
		g.ch = make(chan struct{})
		close(ch)
	}
	g.mu.Unlock()
	select {
	case <-ch:
	case <-time.After(150 * time.Millisecond):
	}
}

// ---------- recorder and hooks ----------

type clntRec struct {
	mu sync.Mutex
	ev []V
}

func (r *clntRec) add(v V) {
	r.mu.Lock()
	r.ev = append(r.ev, v)
	r.mu.Unlock()
}

func clntErrClass(err error) int {
	switch {
	case err == nil:
		return 0
	case errors.Is(err, os.ErrDeadlineExceeded):
		return 1
	case errors.Is(err, io.EOF):
		return 2
	}
	return 3
}

// three ways of implementing modbus.ClientHooks: methods on a pointer (clntHooks), on a struct
// value (clntHooksVal) and on a named func type (clntHooksFunc); what they record is the same
type clntHooks struct{ rec *clntRec }

type clntHooksVal struct{ rec *clntRec }

func (h clntHooksVal) BeforeWrite(toWrite []byte) { h.rec.add(L(I(0), B(toWrite))) }
func (h clntHooksVal) AfterEachRead(received []byte, n int, err error) {
	h.rec.add(L(I(1), B(received), I(n), I(clntErrClass(err))))
}
func (h clntHooksVal) BeforeParse(received []byte) { h.rec.add(L(I(2), B(received))) }

type clntHooksFunc func(v V)

func (f clntHooksFunc) BeforeWrite(toWrite []byte) { f(L(I(0), B(toWrite))) }
func (f clntHooksFunc) AfterEachRead(received []byte, n int, err error) {
	f(L(I(1), B(received), I(n), I(clntErrClass(err))))
}
func (f clntHooksFunc) BeforeParse(received []byte) { f(L(I(2), B(received))) }

func clntMakeHooks(kind int, rec *clntRec) modbus.ClientHooks {
	switch kind {
	case 1:
		return clntHooksVal{rec}
	case 2:
		return clntHooksFunc(rec.add)
	}
	return &clntHooks{rec}
}

func (h *clntHooks) BeforeWrite(toWrite []byte) { h.rec.add(L(I(0), B(toWrite))) }
func (h *clntHooks) AfterEachRead(received []byte, n int, err error) {
	h.rec.add(L(I(1), B(received), I(n), I(clntErrClass(err))))
}
func (h *clntHooks) BeforeParse(received []byte) { h.rec.add(L(I(2), B(received))) }

// ---------- scripted transport ----------

type clntTransport struct {
	rec       *clntRec
	sc        clntScript
	pos       int
	cancel    context.CancelFunc
	exhausted bool
	late      bool
	t0        time.Time     // when Write returned
	expiry    time.Duration // t0 + expiry: the total read timer has certainly fired
	ctx       context.Context
	ctxEnd    time.Time // the caller's deadline (scripts with a ctx step of kind 2)
	blocked   bool      // the read that blocks past the timer / the caller's deadline has been reached
	firstRead time.Time // when the first Read of the call began
	closed    bool      // Close has been called: SetWriteDeadline / Write are refused
	serial    bool
}

func (t *clntTransport) Write(p []byte) (int, error) {
	t.rec.add(L(I(4), B(p)))
	t.t0 = time.Now()
	if t.sc.wr || (t.closed && t.serial) {
		return 0, clntErrWrite
	}
	if t.sc.short > 0 && t.sc.short < len(p) {
		return t.sc.short, nil // a short count without an error
	}
	return len(p), nil
}

func (t *clntTransport) Read(p []byte) (int, error) {
	if t.firstRead.IsZero() {
		t.firstRead = time.Now()
	}
	if t.pos >= len(t.sc.steps) {
		// the script is over and the client still reads: end the call
		t.exhausted = true
		t.cancel()
		return 0, os.ErrDeadlineExceeded
	}
	st := t.sc.steps[t.pos]
	t.pos++
	if t.sc.gate != nil {
		t.sc.gate.wait()
	}
	n := 0
	var err error
	switch st.rd {
	case clntRdData:
		n = copy(p, st.data)
	case clntRdTimeout:
		n = copy(p, st.data)
		err = &net.OpError{Op: "read", Net: "scripted", Err: os.ErrDeadlineExceeded}
	case clntRdTimeoutBare:
		n = copy(p, st.data)
		err = os.ErrDeadlineExceeded
	case clntRdTimeoutWrapped:
		n = copy(p, st.data)
		err = fmt.Errorf("scripted read: %w", os.ErrDeadlineExceeded)
	case clntRdEOF:
		n = copy(p, st.data)
		err = io.EOF
	case clntRdEOFWrapped:
		n = copy(p, st.data)
		err = fmt.Errorf("scripted read: %w", io.EOF)
	case clntRdIOErr:
		n = copy(p, st.data)
		err = &net.OpError{Op: "read", Net: "scripted", Err: clntErrRead}
	case clntRdIOErrTimeout:
		n = copy(p, st.data)
		err = &net.OpError{Op: "read", Net: "scripted", Err: os.NewSyscallError("read", syscall.ETIMEDOUT)}
	}
	if st.gap > 0 {
		time.Sleep(st.gap)
	}
	t.rec.add(L(I(5), B(p[:n]), I(clntErrClass(err))))
	// what the next iteration's select will see
	if t.pos < len(t.sc.steps) {
		nx := t.sc.steps[t.pos]
		if nx.ctx == 1 {
			t.cancel()
		}
		if nx.ctx == 2 || nx.timer {
			t.blocked = true
		}
		if nx.ctx == 2 {
			// block until the caller's own deadline has passed; it must not have passed before
			if t.ctx.Err() != nil {
				t.late = true
			}
			time.Sleep(time.Until(t.ctxEnd.Add(clntCtxMargin)))
			for t.ctx.Err() == nil {
				time.Sleep(time.Millisecond)
			}
		}
		if nx.timer {
			// block past the total read timeout
			if time.Since(t.t0) > t.expiry/3 {
				t.late = true // too slow to be sure that the timer had not fired before this read
			}
			time.Sleep(time.Until(t.t0.Add(t.expiry)))
		}
	}
	return n, err
}

func (t *clntTransport) Close() error { t.closed = true; return nil }

type clntAddr struct{}

func (clntAddr) Network() string { return "scripted" }
func (clntAddr) String() string  { return "scripted" }

type clntConn struct{ *clntTransport }

func (c clntConn) LocalAddr() net.Addr             { return clntAddr{} }
func (c clntConn) RemoteAddr() net.Addr            { return clntAddr{} }
func (c clntConn) SetDeadline(time.Time) error     { return nil }
func (c clntConn) SetReadDeadline(time.Time) error { return nil }
func (c clntConn) SetWriteDeadline(time.Time) error {
	c.rec.add(L(I(6)))
	if c.sc.swd || c.closed {
		return clntErrSWD
	}
	return nil
}

type clntPort struct{ *clntTransport }

type clntFlushPort struct{ clntPort }

func (p clntFlushPort) Flush() error {
	p.rec.add(L(I(3)))
	if p.sc.fl {
		return clntErrFlush
	}
	return nil
}

// ---------- one case ----------

type clntCase struct {
	kind     int // 0 TCP client, 1 RTU network client, 2 serial client
	conn     bool
	flusher  bool
	hooks    bool // entry cdo only
	pair     bool // entry cdo2: run without and with hooks
	rq       *clntRq
	sc       clntScript
	want     V
	ops      []clntOp // entry cdoseq: several calls on one client object (conn: the serial port is given)
	ctor     int      // which public constructor makes the client (see coq/DispClient.v)
	ctorSet  bool     // chosen by the generator; otherwise the streams rotate through the variants
	hookKind int      // how the hooks are implemented: 0 pointer, 1 struct value, 2 func type
}

func (c *clntCase) args() V {
	if c.ops != nil {
		ops := make([]V, len(c.ops))
		for i, o := range c.ops {
			ops[i] = o.val()
		}
		return L(I(c.kind), Bool(c.conn), Bool(c.flusher), Bool(c.hooks), L(ops...), I(c.ctor+10*c.hookKind))
	}
	rq := L()
	if c.rq != nil {
		rq = c.rq.val()
	}
	want := c.want
	if want == nil {
		want = L()
	}
	if c.pair {
		return L(I(c.kind), Bool(c.conn), Bool(c.flusher), rq, c.sc.val(), want, I(c.ctor+10*c.hookKind))
	}
	return L(I(c.kind), Bool(c.conn), Bool(c.flusher), Bool(c.hooks), rq, c.sc.val(), want, I(c.ctor+10*c.hookKind))
}

func clntProject(resp packet.Response, err error) V {
	if err == nil {
		tid, p, _ := projResp(resp)
		return vOk(I(tid), p)
	}
	nilv := Bool(isNilValue(resp))
	var ce *modbus.ClientError
	if errors.As(err, &ce) {
		switch {
		case ce == &modbus.ErrPacketTooLong:
			return vErr(nilv, I(1), I(50))
		case ce == &modbus.ErrClientNotConnected:
			return vErr(nilv, I(1), I(51))
		case errors.Is(ce.Err, clntErrSWD):
			return vErr(nilv, I(1), I(40))
		case errors.Is(ce.Err, clntErrWrite):
			return vErr(nilv, I(1), I(41))
		case errors.Is(ce.Err, clntErrRead), errors.Is(ce.Err, syscall.ETIMEDOUT):
			return vErr(nilv, I(1), I(42)) // the cause is preserved
		case errors.Is(ce.Err, clntErrFlush):
			return vErr(nilv, I(1), I(43))
		case errors.Is(ce.Err, context.Canceled):
			return vErr(nilv, I(1), I(60))
		case errors.Is(ce.Err, context.DeadlineExceeded):
			return vErr(nilv, I(1), I(61))
		}
		return vErr(append([]V{nilv, I(1)}, projErrTail(ce.Err)...)...)
	}
	if err == context.Canceled {
		return vErr(nilv, I(0), I(60))
	}
	if err == context.DeadlineExceeded {
		return vErr(nilv, I(0), I(61))
	}
	if errors.Is(err, context.Canceled) {
		return vErr(nilv, I(0), I(62)) // wraps it, but is not the context's error itself
	}
	if errors.Is(err, context.DeadlineExceeded) {
		return vErr(nilv, I(0), I(63))
	}
	return vErr(append([]V{nilv, I(0)}, projErrTail(err)...)...)
}

var clntErrDial = errors.New("scripted: dial fails")
var clntErrCause = errors.New("scripted: the caller's reason for cancelling")

// how long a call may take before it is reported as not returning (the scripted outcomes need
// milliseconds, the timer cases well under a second)
const (
	clntWatchdog      = 5 * time.Second
	clntWatchdogAfter = 300 * time.Millisecond // once a call on this client object has hung
)

// clntClient is one client object of the library with its scripted transport
type clntClient struct {
	kind     int
	tr       *clntTransport
	rec      *clntRec
	net      *modbus.Client
	ser      *modbus.SerialClient
	timeout  time.Duration
	dialFail int // 0 the dial succeeds, 1 it returns (nil, err), 2 it returns a typed nil pointer with err
	hung     bool
	lastResp packet.Response // the response object of the last call, if it returned one
}

// clntCtors: how many constructor variants with a configuration there are for a kind (variant 4,
// the constructors without configuration, is handled by clntRunBlind)
var clntCtors = [3]int{4, 4, 3}

func clntNewClient(kind int, port, flusher, hooks bool, timeout time.Duration, ctor, hookKind int) *clntClient {
	if kind == 2 && ctor == 3 {
		// a read timeout BELOW the 30 ms the serial client sleeps after the write (scripts without timer
		// steps only): the timer must start when the read loop starts
		timeout = clntShortReadTimeout
	}
	cc := &clntClient{kind: kind, rec: &clntRec{}, timeout: timeout}
	cc.tr = &clntTransport{rec: cc.rec, cancel: func() {}, serial: kind == 2}
	if kind == 2 {
		var p io.ReadWriteCloser
		if port {
			if flusher {
				p = clntFlushPort{clntPort{cc.tr}}
			} else {
				p = clntPort{cc.tr}
			}
		}
		var h modbus.ClientHooks
		if hooks {
			h = clntMakeHooks(hookKind, cc.rec)
		}
		var opts []modbus.SerialClientOptionFunc
		switch ctor {
		case 1: // hooks first
			if hooks {
				opts = append(opts, modbus.WithSerialHooks(h))
			}
			opts = append(opts, modbus.WithSerialReadTimeout(timeout))
		case 2: // every option twice, the last one counts
			opts = append(opts, modbus.WithSerialReadTimeout(time.Nanosecond), modbus.WithSerialHooks(&clntHooks{&clntRec{}}))
			opts = append(opts, modbus.WithSerialHooks(h), modbus.WithSerialReadTimeout(timeout))
		default:
			opts = append(opts, modbus.WithSerialReadTimeout(timeout))
			if hooks {
				opts = append(opts, modbus.WithSerialHooks(h))
			}
		}
		cc.ser = modbus.NewSerialClient(p, opts...)
		return cc
	}
	conf := modbus.ClientConfig{
		WriteTimeout: time.Hour,
		ReadTimeout:  timeout,
		DialContextFunc: func(context.Context, string) (net.Conn, error) {
			switch cc.dialFail {
			case 1:
				return nil, clntErrDial
			case 2:
				// what `return tls.Dial(...)` does on failure: a nil *tls.Conn inside a non-nil net.Conn
				return (*clntPtrConn)(nil), clntErrDial
			}
			cc.tr.closed = false
			return clntConn{cc.tr}, nil
		},
	}
	if hooks {
		conf.Hooks = clntMakeHooks(hookKind, cc.rec)
	}
	if ctor%2 == 1 {
		conf.WriteTimeout = 0 // the default
	}
	tcpFuncs := func() {
		conf.AsProtocolErrorFunc, conf.ParseResponseFunc = packet.AsTCPErrorPacket, packet.ParseTCPResponse
	}
	rtuFuncs := func() {
		conf.AsProtocolErrorFunc, conf.ParseResponseFunc = packet.AsRTUErrorPacketWithCRC, packet.ParseRTUResponseWithCRC
	}
	// the RTU functions that do NOT check the CRC (what the library's own TestWithOptions passes)
	rtuFuncsNoCRC := func() {
		conf.AsProtocolErrorFunc, conf.ParseResponseFunc = packet.AsRTUErrorPacket, packet.ParseRTUResponse
	}
	if kind == 0 {
		switch ctor {
		case 1:
			cc.net = modbus.NewClient(conf) // TCP is the default protocol
		case 2:
			tcpFuncs()
			cc.net = modbus.NewClient(conf)
		case 3:
			rtuFuncsNoCRC() // must be overridden
			cc.net = modbus.NewTCPClientWithConfig(conf)
		default:
			cc.net = modbus.NewTCPClientWithConfig(conf)
		}
	} else {
		switch ctor {
		case 1:
			rtuFuncs()
			cc.net = modbus.NewClient(conf)
		case 2:
			tcpFuncs() // must be overridden
			cc.net = modbus.NewRTUClientWithConfig(conf)
		case 3:
			rtuFuncsNoCRC() // must be overridden by the CRC-checking ones
			cc.net = modbus.NewRTUClientWithConfig(conf)
		default:
			cc.net = modbus.NewRTUClientWithConfig(conf)
		}
	}
	return cc
}

// watch runs f and reports whether it returned in time
func (cc *clntClient) watch(f func()) bool {
	done := make(chan struct{})
	go func() {
		defer close(done)
		f()
	}()
	d := clntWatchdog
	if cc.hung {
		d = clntWatchdogAfter
	}
	select {
	case <-done:
		return true
	case <-time.After(d):
		cc.hung = true
		return false
	}
}

// clntPtrConn is a net.Conn implemented on a pointer type, like *tls.Conn or *net.TCPConn: every
// method of a nil *clntPtrConn dereferences the nil receiver
type clntPtrConn struct{ inner clntConn }

func (c *clntPtrConn) Read(p []byte) (int, error)         { return c.inner.Read(p) }
func (c *clntPtrConn) Write(p []byte) (int, error)        { return c.inner.Write(p) }
func (c *clntPtrConn) Close() error                       { return c.inner.Close() }
func (c *clntPtrConn) LocalAddr() net.Addr                { return c.inner.LocalAddr() }
func (c *clntPtrConn) RemoteAddr() net.Addr               { return c.inner.RemoteAddr() }
func (c *clntPtrConn) SetDeadline(t time.Time) error      { return c.inner.SetDeadline(t) }
func (c *clntPtrConn) SetReadDeadline(t time.Time) error  { return c.inner.SetReadDeadline(t) }
func (c *clntPtrConn) SetWriteDeadline(t time.Time) error { return c.inner.SetWriteDeadline(t) }

// connect / close: [0] returned nil, [1] returned an error, [2] panicked, [98] did not return
func (cc *clntClient) connect(fail int) V {
	if cc.net == nil {
		return L(I(0)) // the serial client has no Connect
	}
	cc.dialFail = fail
	var res V
	ok := cc.watch(func() {
		res = guard(func() V {
			if err := cc.net.Connect(context.Background(), "scripted"); err != nil {
				return L(I(1))
			}
			return L(I(0))
		})
	})
	if !ok {
		return L(I(98))
	}
	return res
}

func (cc *clntClient) close() V {
	var res V
	ok := cc.watch(func() {
		res = guard(func() V {
			var err error
			if cc.net != nil {
				err = cc.net.Close()
			} else {
				err = cc.ser.Close()
			}
			if err != nil {
				return L(I(1))
			}
			return L(I(0))
		})
	})
	if !ok {
		return L(I(98))
	}
	return res
}

// do performs one call with the given script; returns [result, trace] and whether the timing
// was unreliable
func (cc *clntClient) do(rq *clntRq, sc clntScript, try int) ([]V, bool) {
	// the caller cancels with a custom cause, and its deadline has one too: the call must still
	// return ctx.Err() (context.Canceled / context.DeadlineExceeded), not context.Cause(ctx)
	ctx, cancelCause := context.WithCancelCause(context.Background())
	cancel := func() { cancelCause(clntErrCause) }
	defer cancel()
	var ctxEnd time.Time
	if d := sc.deadlineStep(); d >= 0 {
		// the caller's context has a deadline of its own, far shorter than the read timeout
		ctxEnd = time.Now().Add(clntCtxDeadline0 << uint(try))
		if d == 0 {
			ctxEnd = time.Now().Add(-time.Second)
		}
		var cancel2 context.CancelFunc
		ctx, cancel2 = context.WithDeadlineCause(ctx, ctxEnd, clntErrCause)
		defer cancel2()
	}
	tr := cc.tr
	cc.rec.mu.Lock()
	cc.rec.ev = nil
	cc.rec.mu.Unlock()
	tr.sc, tr.pos, tr.exhausted, tr.late, tr.blocked = sc, 0, false, false, false
	tr.firstRead = time.Time{}
	callStart := time.Now()
	// a script whose timer / caller deadline is due at a later step: if the call takes a good part
	// of that time without reaching the read that is to block, the clock may have decided instead
	// of the script (the case is run again)
	budget := time.Duration(0)
	if d := sc.deadlineStep(); d > 0 {
		budget = time.Until(ctxEnd) / 2
	}
	if sc.hasTimer() && !sc.steps[0].timer {
		if b := cc.timeout / 3; budget == 0 || b < budget {
			budget = b
		}
	}
	tr.cancel, tr.ctx, tr.ctxEnd, tr.t0 = cancel, ctx, ctxEnd, time.Now()
	tr.expiry = cc.timeout + clntTimerMargin
	if cc.kind == 2 {
		tr.expiry += clntSerialSleep
	}
	var req packet.Request
	if rq != nil {
		req = rq.req
		if rr, ok := req.(*clntRollingReq); ok {
			rr.calls, rr.rec = 0, cc.rec
		}
	}
	if len(sc.steps) > 0 && sc.steps[0].ctx == 1 {
		cancel()
	}
	var res V
	var got packet.Response
	cc.lastResp = nil
	returned := cc.watch(func() {
		res = guard(func() V {
			var resp packet.Response
			var err error
			if cc.kind == 2 {
				resp, err = cc.ser.Do(ctx, req)
			} else {
				resp, err = cc.net.Do(ctx, req)
			}
			if err == nil {
				got = resp
			}
			return clntProject(resp, err)
		})
	})
	if !returned {
		return []V{L(I(98)), L()}, false
	}
	if sc.maxElapsed > 0 && time.Since(callStart) > sc.maxElapsed {
		// the call did return, but far beyond its TOTAL read timeout: reported like a call that hangs
		return []V{L(I(98)), L()}, false
	}
	if budget > 0 && !tr.blocked && time.Since(callStart) > budget {
		tr.late = true
	}
	if cc.timeout == clntShortReadTimeout {
		// the real (short) timer must not decide: the read loop, from its first Read on, has to be much
		// quicker than the timeout; and a call that never read must have ended right after the 30 ms
		// sleep (a stall between the sleep and the first select would look the same as a timer
		// started too early, except that it ends later)
		end := time.Now()
		if !tr.firstRead.IsZero() && end.Sub(tr.firstRead) > clntShortReadTimeout/2 {
			tr.late = true
		}
		if tr.firstRead.IsZero() && end.Sub(tr.t0) > clntSerialSleep+clntShortReadTimeout*3/4 {
			tr.late = true
		}
	}
	if tr.exhausted {
		return []V{L(I(99)), L()}, tr.late
	}
	cc.lastResp = got
	cc.rec.mu.Lock()
	defer cc.rec.mu.Unlock()
	return []V{res, L(cc.rec.ev...)}, tr.late
}

func clntTimeoutFor(try int, scripts ...clntScript) time.Duration {
	for _, sc := range scripts {
		if sc.hasTimer() {
			if sc.timerT > 0 {
				return sc.timerT << uint(try)
			}
			return clntTimerT << uint(try)
		}
	}
	return time.Hour
}

// clntRunOnce: a fresh client object, connected if the case says so, one call
func clntRunOnce(c *clntCase, hooks bool, try int) ([]V, bool) {
	if c.ctor == 4 {
		return clntRunBlind(c), false
	}
	cc := clntNewClient(c.kind, c.conn, c.flusher, hooks, clntTimeoutFor(try, c.sc), c.ctor, c.hookKind)
	if c.conn && cc.net != nil {
		if e := cc.net.Connect(context.Background(), "scripted"); e != nil {
			panic(e)
		}
	}
	return cc.do(c.rq, c.sc, try)
}

// clntRunBlind: the constructors without configuration (NewTCPClient, NewRTUClient) dial for real.
// A loopback listener plays the device: it reads the request, then writes the data chunks of the
// script one by one with short pauses (a quiet step is a pause).  Neither transport calls nor hooks
// can be observed: the trace is empty by convention.
func clntRunBlind(c *clntCase) []V {
	ln, err := net.Listen("tcp", "127.0.0.1:0")
	if err != nil {
		panic(err)
	}
	defer ln.Close()
	done := make(chan struct{})
	defer close(done)
	reqLen := len(c.rq.req.Bytes())
	go func() {
		conn, err := ln.Accept()
		if err != nil {
			return
		}
		defer conn.Close()
		if _, err := io.ReadFull(conn, make([]byte, reqLen)); err != nil {
			return
		}
		for _, st := range c.sc.steps {
			if len(st.data) > 0 {
				if _, err := conn.Write(st.data); err != nil {
					return
				}
			}
			time.Sleep(3 * time.Millisecond)
		}
		<-done
	}()
	var cl *modbus.Client
	if c.kind == 0 {
		cl = modbus.NewTCPClient()
	} else {
		cl = modbus.NewRTUClient()
	}
	cc := &clntClient{}
	var res V
	ok := cc.watch(func() {
		res = guard(func() V {
			addr := ln.Addr().String()
			if c.kind == 1 {
				addr = "tcp://" + addr // both address forms
			}
			if e := cl.Connect(context.Background(), addr); e != nil {
				panic(e)
			}
			defer cl.Close()
			resp, err := cl.Do(context.Background(), c.rq.req)
			return clntProject(resp, err)
		})
	})
	if !ok {
		return []V{L(I(98)), L()}
	}
	return []V{res, L()}
}

// ---------- sequences of calls on one client object ----------

type clntOp struct {
	what int // 0 Connect, 1 Close, 2 Do
	fail int // Connect: 0 the dial succeeds, 1 fails with (nil, err), 2 fails with (typed nil, err)
	rq   *clntRq
	sc   clntScript
	want V
}

func (o clntOp) val() V {
	switch o.what {
	case 0:
		return L(I(0), I(o.fail))
	case 1:
		return L(I(1))
	}
	rq := L()
	if o.rq != nil {
		rq = o.rq.val()
	}
	want := o.want
	if want == nil {
		want = L()
	}
	return L(I(2), rq, o.sc.val(), want)
}

func clntRunSeq(c *clntCase) V {
	var out []V
	for try := 0; try < 6; try++ {
		var scripts []clntScript
		for _, o := range c.ops {
			scripts = append(scripts, o.sc)
		}
		cc := clntNewClient(c.kind, c.conn, c.flusher, c.hooks, clntTimeoutFor(try, scripts...), c.ctor, c.hookKind)
		out = out[:0]
		late := false
		kept := map[int]packet.Response{} // every response object returned, by position
		for _, o := range c.ops {
			switch o.what {
			case 0:
				out = append(out, cc.connect(o.fail))
			case 1:
				out = append(out, cc.close())
			default:
				r, l := cc.do(o.rq, o.sc, try)
				late = late || l
				if cc.lastResp != nil {
					kept[len(out)] = cc.lastResp
				}
				out = append(out, L(r...))
			}
		}
		// look at every response object again, now that all later calls have been made
		for i, o := range c.ops {
			if o.what != 2 {
				continue
			}
			lateV := L()
			if resp, ok := kept[i]; ok {
				lateV = guard(func() V {
					tid, p, re := projResp(resp)
					if re {
						return L(I(tid), p, B(resp.Bytes()))
					}
					return L(I(tid), p, B(nil))
				})
			}
			out[i] = L(append([]V(out[i].(vList)), lateV)...)
		}
		if !late {
			break
		}
	}
	return L(out...)
}

func clntRunCase(c *clntCase) V {
	if c.ops != nil {
		return clntRunSeq(c)
	}
	run := func(hooks bool) []V {
		var out []V
		for try := 0; try < 6; try++ {
			var late bool
			out, late = clntRunOnce(c, hooks, try)
			if !late {
				break
			}
		}
		return out
	}
	if c.pair {
		return L(append(run(false), run(true)...)...)
	}
	return L(run(c.hooks)...)
}

// ---------- runner: cases are generated in order, run in parallel, emitted in order ----------

type clntRunner struct {
	batch []*clntCase
	n     int
}

const clntBatch = 4096

func (r *clntRunner) add(c *clntCase) {
	r.batch = append(r.batch, c)
	if len(r.batch) >= clntBatch {
		r.flush()
	}
}

func (r *clntRunner) flush() {
	res := make([]V, len(r.batch))
	var wg sync.WaitGroup
	for i := range r.batch {
		wg.Add(1)
		go func(i int) {
			defer wg.Done()
			res[i] = clntRunCase(r.batch[i])
		}(i)
	}
	wg.Wait()
	for i, c := range r.batch {
		name := "cdo"
		if c.pair {
			name = "cdo2"
		}
		if c.ops != nil {
			name = "cdoseq"
		}
		emit(name, c.args(), res[i])
	}
	r.n += len(r.batch)
	r.batch = r.batch[:0]
}
