package main

import "github.com/aldas/go-modbus-client/packet"

func init() { streams["crc"] = streamCRC }

func crcCase(p []byte) {
	emit("crc16", L(B(p)), guard(func() V { return U(uint64(packet.CRC16(p))) }))
}

// CRC16 on all strings of length <= 2 (exhaustive), then random strings up to 300 bytes
func streamCRC(seed uint64, thorough bool) {
	crcCase(nil)
	for a := 0; a < 256; a++ {
		crcCase([]byte{byte(a)})
	}
	for a := 0; a < 256; a++ {
		for b := 0; b < 256; b++ {
			crcCase([]byte{byte(a), byte(b)})
		}
	}
	r := newRng(seed)
	n := 20000
	if thorough {
		n = 200000
	}
	for i := 0; i < n; i++ {
		crcCase(r.bytes(r.intn(301)))
	}
	crcCase([]byte("123456789"))
	// long strings: around every size a narrower length or index type would wrap at
	for _, n := range []int{255, 256, 257, 511, 512, 4095, 4096, 32767, 32768, 65534, 65535, 65536, 65537, 65536 + 300, 131072, 131073} {
		crcCase(r.bytes(n))
		if n >= 65536 { // a change of one byte past the wrap point changes the result
			b := r.bytes(n)
			crcCase(b)
			c := append([]byte(nil), b...)
			c[n-1] ^= 0x01
			crcCase(c)
		}
	}
}
