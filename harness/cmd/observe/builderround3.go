package main

// Builder layer, two more streams:
//
// split_seq: ONE Builder holding coil and register fields is built 2..5 times in a row with
// different targets.  Every build must be the build of the ORIGINAL field list: outcome per build
// = the projection of "split" and, for register targets, the extraction results of "extract"
// (complete replies).
//
// extract_client: the builder's FC3/FC4 requests are sent through ONE real client per server
// address (modbus.Client for TCP and RTU-over-TCP over net.Pipe to a device goroutine, or
// modbus.SerialClient over an in-memory port) to the conforming simulated device.  Phase A sends
// ALL requests first, keeps the responses and extracts afterwards; phase B extracts immediately
// after every Do.  Outcome per phase as in "extract".

import (
	"context"
	"io"
	"net"
	"strconv"
	"sync"
	"time"

	modbus "github.com/aldas/go-modbus-client"
	"github.com/aldas/go-modbus-client/packet"
)

func init() {
	streams["split_seq"] = streamSplitSeq
	streams["extract_client"] = streamExtractClient
}

// bldMakeBuilder fills one Builder (AddAll or the fluent calls, as callBuilder does)
func bldMakeBuilder(fields []modbus.Field, fluent bool) *modbus.Builder {
	defServer, defUnit := "", uint8(0)
	if len(fields) > 0 {
		defServer, defUnit = fields[0].ServerAddress, fields[0].UnitID
	}
	b := modbus.NewRequestBuilder(defServer, defUnit)
	if fluent {
		for _, f := range fields {
			if bf := bfieldOf(b, f, defServer, defUnit); bf != nil {
				b.Add(bf)
			} else {
				b.AddAll(modbus.Fields{f})
			}
		}
	} else {
		b.AddAll(fields)
	}
	return b
}

func bldBuild(b *modbus.Builder, target int) ([]modbus.BuilderRequest, error) {
	switch target {
	case 0:
		return b.ReadCoilsTCP()
	case 1:
		return b.ReadCoilsRTU()
	case 2:
		return b.ReadDiscreteInputsTCP()
	case 3:
		return b.ReadDiscreteInputsRTU()
	case 4:
		return b.ReadHoldingRegistersTCP()
	case 5:
		return b.ReadHoldingRegistersRTU()
	case 6:
		return b.ReadInputRegistersTCP()
	default:
		return b.ReadInputRegistersRTU()
	}
}

// bldSplitDescs: the projection of the "split" entry for already sorted requests
func bldSplitDescs(fields []modbus.Field, reqs []modbus.BuilderRequest) (V, []V) {
	tids := make([]V, 0, len(reqs))
	descs := make([]V, 0, len(reqs))
	for _, q := range reqs {
		tid, pv := projReq(q.Request)
		tids = append(tids, I(tid))
		ids := make([]V, 0, len(q.Fields))
		for _, f := range q.Fields {
			ids = append(ids, I(fieldID(fields, f)))
		}
		descs = append(descs, L(S(q.ServerAddress), I(int(q.UnitID)), I(int(q.StartAddress)), I(tid), pv,
			B(q.Bytes()), vList(ids)))
	}
	return vList(descs), tids
}

// bldExtractDesc: the projection of the "extract" entry for one request and its response
func bldExtractDesc(target int, fields []modbus.Field, q modbus.BuilderRequest, resp packet.Response, perr error) V {
	_, s, qq := deviceReply(target%2 == 0, 0, q.Bytes(), -1)
	h := heldExtraction{noResp: perr != nil}
	if perr == nil {
		h.run(q, resp)
	}
	strict, lenient := h.strict(fields), h.lenient(fields)
	return L(S(q.ServerAddress), I(int(q.UnitID)), I(s), I(qq), strict, lenient)
}

// bldSimulate: complete reply of the conforming device, parsed by the dispatcher
func bldSimulate(target int, ms uint64, q modbus.BuilderRequest) (packet.Response, error) {
	tcp := target%2 == 0
	reply, _, _ := deviceReply(tcp, devSeed(ms, q.ServerAddress, q.UnitID), q.Bytes(), -1)
	if tcp {
		return packet.ParseTCPResponse(reply)
	}
	return packet.ParseRTUResponseWithCRC(reply)
}

// ---------- split_seq ----------
func splitSeqCase(fields []modbus.Field, fluent bool, targets []int, ms uint64) {
	splitSeqRun(func() *modbus.Builder { return bldMakeBuilder(fields, fluent) }, fields, targets, ms)
}

// splitSeqRun: the builder returned by mk must behave as a Builder holding exactly [fields] (the
// definitions as they were when they were handed to it), for every build of the sequence
func splitSeqRun(mk func() *modbus.Builder, fields []modbus.Field, targets []int, ms uint64) {
	var tidss []V
	outcome := guard(func() V {
		b := mk()
		elems := make([]V, 0, len(targets))
		for _, t := range targets {
			elem, tids := bldBuildElem(b, fields, t, ms)
			tidss = append(tidss, tids)
			elems = append(elems, elem)
		}
		return vOk(vList(elems))
	})
	ts := make([]V, len(targets))
	for i, t := range targets {
		ts[i] = I(t)
	}
	emit("split_seq", L(fieldVals(fields), vList(ts), vList(tidss), U(ms)), outcome)
}

// bldBuildElem: one build of b for target t, projected as one element of a "split_seq" outcome
// (fields = what the Builder holds at this moment)
func bldBuildElem(b *modbus.Builder, fields []modbus.Field, t int, ms uint64) (V, V) {
	reqs, err := bldBuild(b, t)
	if err != nil {
		var ex V = L()
		if t >= 4 {
			ex = vErr(Bool(reqs == nil))
		}
		return L(vErr(Bool(reqs == nil)), ex), L()
	}
	sortRequests(reqs)
	descs, tids := bldSplitDescs(fields, reqs)
	var ex V = L()
	if t >= 4 {
		xs := make([]V, 0, len(reqs))
		for _, q := range reqs {
			resp, perr := bldSimulate(t, ms, q)
			xs = append(xs, bldExtractDesc(t, fields, q, resp, perr))
		}
		ex = vOk(vList(xs))
	}
	return L(vOk(descs), ex), vList(tids)
}

// splitGrowCase: ONE Builder that grows between builds.  ops: a target 0..7 = build it; -1 = add the
// next portion of [portions] with Add (one by one), -2 = with AddAll.  Every build is emitted as a
// "split_seq" case of its own, judged against the field list the Builder holds at that moment.
func splitGrowCase(initial []modbus.Field, portions [][]modbus.Field, ops []int, ms uint64) {
	b := modbus.NewRequestBuilder("", 0)
	b.AddAll(append([]modbus.Field(nil), initial...))
	cur := append([]modbus.Field(nil), initial...)
	next := 0
	for _, op := range ops {
		if op < 0 {
			if next >= len(portions) {
				continue
			}
			p := portions[next]
			next++
			if op == -1 {
				for _, f := range p {
					b.Add(&modbus.BField{Field: f})
				}
			} else {
				b.AddAll(append([]modbus.Field(nil), p...))
			}
			cur = append(cur, p...)
			continue
		}
		snapshot := append([]modbus.Field(nil), cur...)
		var tids V = L()
		t := op
		outcome := guard(func() V {
			elem, ti := bldBuildElem(b, snapshot, t, ms)
			tids = ti
			return vOk(L(elem))
		})
		emit("split_seq", L(fieldVals(snapshot), L(I(t)), L(tids), U(ms)), outcome)
	}
}

func streamSplitSeq(seed uint64, thorough bool) {
	r := newRng(seed ^ 0xB5E)
	// the smallest witnesses: a filtered-out field BEFORE a kept one, every pair of targets
	for t1 := 0; t1 < 8; t1++ {
		for t2 := 0; t2 < 8; t2++ {
			fields := []modbus.Field{mkField(0, "a", 1, 5, modbus.FieldTypeCoil, 0), mkField(1, "a", 1, 6, modbus.FieldTypeUint16, 0),
				mkField(2, "a", 1, 7, modbus.FieldTypeCoil, 0), mkField(3, "a", 1, 8, modbus.FieldTypeUint32, 0)}
			splitSeqCase(fields, false, []int{t1, t2, t1}, 3)
		}
	}
	for _, fs := range siblingCorpus() {
		mixed := append([]modbus.Field{mkField(0, "a", 1, 3, modbus.FieldTypeCoil, 0)}, fs...)
		for i := range mixed {
			mixed[i].Name = strconv.Itoa(i)
		}
		splitSeqCase(mixed, false, []int{0, 4, 7, 5}, 11)
	}
	n := 4000
	if thorough {
		n = 40000
	}
	for i := 0; i < n; i++ {
		sc := genScenario(r)
		fields := genFields(r, sc, 2+r.intn(20), 30+r.intn(41), r.intn(30) == 0)
		if r.bool() {
			fields = addSiblings(r, fields, 30)
		}
		if r.intn(40) == 0 {
			mutateInvalid(r, fields)
		}
		nb := 2 + r.intn(4)
		targets := make([]int, nb)
		for j := range targets {
			targets[j] = r.intn(8)
		}
		if r.bool() { // make sure kinds alternate at least once
			targets[0] = r.intn(4)
			targets[1] = 4 + r.intn(4)
			if r.bool() {
				targets[0], targets[1] = targets[1], targets[0]
			}
		}
		splitSeqCase(fields, r.intn(3) == 0, targets, uint64(r.intn(65536)))
	}
}

// ---------- extract_client ----------
// bldDevice serves one connection: read one read-request (fixed size), answer as the device of
// (server, unit in the request), until the peer closes
func bldDevice(conn net.Conn, tcp bool, ms uint64, server string) {
	defer conn.Close()
	n := 8
	if tcp {
		n = 12
	}
	buf := make([]byte, n)
	for {
		if _, err := io.ReadFull(conn, buf); err != nil {
			return
		}
		unit := buf[0]
		if tcp {
			unit = buf[6]
		}
		reply, _, _ := deviceReply(tcp, devSeed(ms, server, unit), buf, -1)
		if _, err := conn.Write(reply); err != nil {
			return
		}
	}
}

// bldPort: in-memory serial port; the device answers when the request is written
type bldPort struct {
	mu     sync.Mutex
	ms     uint64
	server string
	in     []byte
	out    []byte
}

func (p *bldPort) Write(b []byte) (int, error) {
	p.mu.Lock()
	defer p.mu.Unlock()
	p.in = append(p.in, b...)
	for len(p.in) >= 8 {
		reply, _, _ := deviceReply(false, devSeed(p.ms, p.server, p.in[0]), p.in[:8], -1)
		p.out = append(p.out, reply...)
		p.in = p.in[8:]
	}
	return len(b), nil
}
func (p *bldPort) Read(b []byte) (int, error) {
	for i := 0; i < 2000; i++ {
		p.mu.Lock()
		if len(p.out) > 0 {
			n := copy(b, p.out)
			p.out = p.out[n:]
			p.mu.Unlock()
			return n, nil
		}
		p.mu.Unlock()
		time.Sleep(time.Millisecond)
	}
	return 0, io.EOF
}
func (p *bldPort) Close() error { return nil }

type bldDoer interface {
	Do(ctx context.Context, req packet.Request) (packet.Response, error)
	Close() error
}

// kind 0 = TCP client, 1 = RTU client over a network connection, 2 = serial client
func bldNewClient(kind int, ms uint64, server string) (bldDoer, error) {
	if kind == 2 {
		return modbus.NewSerialClient(&bldPort{ms: ms, server: server}), nil
	}
	conf := modbus.ClientConfig{
		DialContextFunc: func(context.Context, string) (net.Conn, error) {
			cl, dev := net.Pipe()
			go bldDevice(dev, kind == 0, ms, server)
			return cl, nil
		},
	}
	var c *modbus.Client
	if kind == 0 {
		c = modbus.NewTCPClientWithConfig(conf)
	} else {
		c = modbus.NewRTUClientWithConfig(conf)
	}
	if err := c.Connect(context.Background(), server); err != nil {
		return nil, err
	}
	return c, nil
}

type bldClientCase struct {
	target int
	kind   int
	fields []modbus.Field
	ms     uint64
	args   V
	out    V
}

func (c *bldClientCase) run() {
	var tids []V
	c.out = guard(func() V {
		reqs, err := callBuilder(c.target, c.fields, false)
		if err != nil {
			return vErr(Bool(reqs == nil))
		}
		sortRequests(reqs)
		clients := map[string]bldDoer{}
		defer func() {
			for _, cl := range clients {
				_ = cl.Close()
			}
		}()
		for _, q := range reqs {
			tid, _ := projReq(q.Request)
			tids = append(tids, I(tid))
			if _, ok := clients[q.ServerAddress]; !ok {
				cl, e := bldNewClient(c.kind, c.ms, q.ServerAddress)
				if e != nil {
					return L(I(8))
				}
				clients[q.ServerAddress] = cl
			}
		}
		ctx, cancel := context.WithTimeout(context.Background(), 20*time.Second)
		defer cancel()
		// phase A: all requests first, extraction afterwards
		resps := make([]packet.Response, len(reqs))
		errs := make([]error, len(reqs))
		for i, q := range reqs {
			resps[i], errs[i] = clients[q.ServerAddress].Do(ctx, q.Request)
		}
		phaseA := make([]V, 0, len(reqs))
		for i, q := range reqs {
			phaseA = append(phaseA, bldExtractDesc(c.target, c.fields, q, resps[i], errs[i]))
		}
		// phase B: extraction immediately after each Do
		phaseB := make([]V, 0, len(reqs))
		for _, q := range reqs {
			resp, e := clients[q.ServerAddress].Do(ctx, q.Request)
			phaseB = append(phaseB, bldExtractDesc(c.target, c.fields, q, resp, e))
		}
		return vOk(vList(phaseA), vList(phaseB))
	})
	c.args = L(I(c.target), fieldVals(c.fields), vList(tids), U(c.ms), I(c.kind))
}

func streamExtractClient(seed uint64, thorough bool) {
	r := newRng(seed ^ 0xBC1)
	n := 300
	if thorough {
		n = 3000
	}
	cases := make([]*bldClientCase, 0, n+8)
	// two register blocks far apart on one server: two responses of one client
	for kind := 0; kind < 3; kind++ {
		t := 4
		if kind > 0 {
			t = 5
		}
		fs := []modbus.Field{mkField(0, "a", 1, 10, modbus.FieldTypeUint32, 0), mkField(1, "a", 1, 12, modbus.FieldTypeString, 6),
			mkField(2, "a", 1, 500, modbus.FieldTypeUint64, 0), mkField(3, "a", 2, 500, modbus.FieldTypeInt16, 0),
			mkField(4, "a", 1, 900, modbus.FieldTypeFloat32, 0)}
		cases = append(cases, &bldClientCase{target: t, kind: kind, fields: fs, ms: uint64(kind + 1)})
		cases = append(cases, &bldClientCase{target: t + 2, kind: kind, fields: fs, ms: uint64(kind + 5)})
	}
	for i := 0; i < n; i++ {
		kind := 0
		switch x := r.intn(10); {
		case x >= 8:
			kind = 2
		case x >= 4:
			kind = 1
		}
		target := 4 + 2*r.intn(2)
		if kind > 0 {
			target++
		}
		sc := genScenario(r)
		cnt := 2 + r.intn(14)
		if kind == 2 {
			cnt = 2 + r.intn(6)
		}
		var fields []modbus.Field
		if r.bool() {
			fields = genMixedFields(r, sc, cnt)
			// a second and third block on the same device, far away: several requests per client
			for j := range fields {
				if j%3 == 1 {
					fields[j].Address += 400
				} else if j%3 == 2 {
					fields[j].Address += 900
				}
			}
		} else {
			fields = genFields(r, sc, cnt, 5, false)
		}
		cases = append(cases, &bldClientCase{target: target, kind: kind, fields: fields, ms: uint64(r.intn(65536))})
	}
	// run in parallel, emit in order
	var wg sync.WaitGroup
	sem := make(chan struct{}, 32)
	for _, c := range cases {
		wg.Add(1)
		sem <- struct{}{}
		go func(c *bldClientCase) {
			defer wg.Done()
			defer func() { <-sem }()
			c.run()
		}(c)
	}
	wg.Wait()
	for _, c := range cases {
		emit("extract_client", c.args, c.out)
	}
}
