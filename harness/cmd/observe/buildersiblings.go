package main

// Builder layer: sibling fields.  For a share of the fields of a generated list a SIBLING is added
// at the same address on the same device that differs from the original in exactly ONE attribute
// (Length for strings, Bit for bit fields, FromHighByte for byte fields, Type between types of the
// same width, ByteOrder), placed right after it, right before it, separated from it by a third
// field at the same address, or at the far end / the very front of the list.

import (
	"strconv"

	modbus "github.com/aldas/go-modbus-client"
	"github.com/aldas/go-modbus-client/packet"
)

var sameWidthTypes = map[modbus.FieldType][]modbus.FieldType{
	modbus.FieldTypeByte:    {modbus.FieldTypeUint8, modbus.FieldTypeInt8},
	modbus.FieldTypeUint8:   {modbus.FieldTypeByte, modbus.FieldTypeInt8},
	modbus.FieldTypeInt8:    {modbus.FieldTypeByte, modbus.FieldTypeUint8},
	modbus.FieldTypeUint16:  {modbus.FieldTypeInt16},
	modbus.FieldTypeInt16:   {modbus.FieldTypeUint16},
	modbus.FieldTypeUint32:  {modbus.FieldTypeInt32, modbus.FieldTypeFloat32},
	modbus.FieldTypeInt32:   {modbus.FieldTypeUint32, modbus.FieldTypeFloat32},
	modbus.FieldTypeFloat32: {modbus.FieldTypeUint32, modbus.FieldTypeInt32},
	modbus.FieldTypeUint64:  {modbus.FieldTypeInt64, modbus.FieldTypeFloat64},
	modbus.FieldTypeInt64:   {modbus.FieldTypeUint64, modbus.FieldTypeFloat64},
	modbus.FieldTypeFloat64: {modbus.FieldTypeUint64, modbus.FieldTypeInt64},
}

func otherOrder(r *rng, o packet.ByteOrder) packet.ByteOrder {
	for {
		n := packet.ByteOrder(builderOrders[r.intn(len(builderOrders))])
		if n != o {
			return n
		}
	}
}

// siblingOf: f with exactly one attribute changed; false when the type has no such attribute
func siblingOf(r *rng, f modbus.Field) (modbus.Field, bool) {
	g := f
	switch f.Type {
	case modbus.FieldTypeString:
		if r.intn(4) != 0 {
			for g.Length == f.Length {
				switch r.intn(3) {
				case 0:
					g.Length = uint8(1 + r.intn(6))
				case 1:
					g.Length = uint8(1 + r.intn(24))
				default: // one byte more or less: the same registers, another cut
					g.Length = uint8(int(f.Length) - 1 + 2*r.intn(2))
				}
				if g.Length == 0 {
					g.Length = f.Length
				}
			}
		} else {
			g.ByteOrder = otherOrder(r, f.ByteOrder)
		}
	case modbus.FieldTypeBit:
		for g.Bit == f.Bit {
			g.Bit = uint8(r.intn(16))
		}
	case modbus.FieldTypeByte, modbus.FieldTypeUint8, modbus.FieldTypeInt8:
		if r.bool() {
			g.FromHighByte = !f.FromHighByte
		} else {
			alts := sameWidthTypes[f.Type]
			g.Type = alts[r.intn(len(alts))]
		}
	case modbus.FieldTypeCoil:
		return g, false
	default:
		alts, ok := sameWidthTypes[f.Type]
		if !ok {
			return g, false
		}
		if r.bool() {
			g.Type = alts[r.intn(len(alts))]
		} else {
			g.ByteOrder = otherOrder(r, f.ByteOrder)
		}
	}
	return g, true
}

// addSiblings gives about percent % of the fields a sibling and renumbers the names (a field's
// name is its position in the list)
func addSiblings(r *rng, fields []modbus.Field, percent int) []modbus.Field {
	var head, mid, tail []modbus.Field
	for _, f := range fields {
		if len(fields)+len(head)+len(tail) > 48 || r.intn(100) >= percent {
			mid = append(mid, f)
			continue
		}
		sib, ok := siblingOf(r, f)
		if !ok {
			mid = append(mid, f)
			continue
		}
		switch r.intn(6) {
		case 0, 1:
			mid = append(mid, f, sib)
		case 2:
			mid = append(mid, sib, f)
		case 3: // a third field on the same registers in between
			third := f
			third.Type = modbus.FieldTypeUint16
			third.Length = 0
			if f.Type == modbus.FieldTypeUint16 {
				third.Type = modbus.FieldTypeBit
			}
			if r.bool() {
				mid = append(mid, f, third, sib)
			} else {
				mid = append(mid, sib, third, f)
			}
		case 4:
			mid = append(mid, f)
			tail = append(tail, sib)
		default:
			mid = append(mid, f)
			head = append(head, sib)
		}
	}
	out := append(append(head, mid...), tail...)
	for i := range out {
		out[i].Name = strconv.Itoa(i)
	}
	return out
}

// siblingCorpus: for every attribute the pair (original, sibling) in both orders, adjacent and
// with a third field in between
func siblingCorpus() [][]modbus.Field {
	mk := func(ty modbus.FieldType, length uint8, bit uint8, high bool, bo packet.ByteOrder) modbus.Field {
		f := mkField(0, "a", 1, 100, ty, length)
		f.Bit, f.FromHighByte, f.ByteOrder = bit, high, bo
		return f
	}
	pairs := [][2]modbus.Field{
		{mk(modbus.FieldTypeString, 12, 0, false, 0), mk(modbus.FieldTypeString, 2, 0, false, 0)},
		{mk(modbus.FieldTypeString, 5, 0, false, 1), mk(modbus.FieldTypeString, 6, 0, false, 1)},
		{mk(modbus.FieldTypeString, 8, 0, false, 1), mk(modbus.FieldTypeString, 8, 0, false, 2)},
		{mk(modbus.FieldTypeBit, 0, 3, false, 0), mk(modbus.FieldTypeBit, 0, 11, false, 0)},
		{mk(modbus.FieldTypeByte, 0, 0, false, 0), mk(modbus.FieldTypeByte, 0, 0, true, 0)},
		{mk(modbus.FieldTypeUint8, 0, 0, true, 0), mk(modbus.FieldTypeInt8, 0, 0, true, 0)},
		{mk(modbus.FieldTypeUint16, 0, 0, false, 0), mk(modbus.FieldTypeInt16, 0, 0, false, 0)},
		{mk(modbus.FieldTypeUint32, 0, 0, false, 0), mk(modbus.FieldTypeFloat32, 0, 0, false, 0)},
		{mk(modbus.FieldTypeUint32, 0, 0, false, 1), mk(modbus.FieldTypeUint32, 0, 0, false, 6)},
		{mk(modbus.FieldTypeInt64, 0, 0, false, 0), mk(modbus.FieldTypeUint64, 0, 0, false, 0)},
		{mk(modbus.FieldTypeFloat64, 0, 0, false, 2), mk(modbus.FieldTypeFloat64, 0, 0, false, 4)},
	}
	var lists [][]modbus.Field
	for _, p := range pairs {
		third := mk(modbus.FieldTypeInt16, 0, 0, false, 0)
		for _, l := range [][]modbus.Field{{p[0], p[1]}, {p[1], p[0]}, {p[0], third, p[1]}, {p[1], third, p[0]}, {p[0], p[1], p[0], p[1]}} {
			fs := append([]modbus.Field(nil), l...)
			for i := range fs {
				fs[i].Name = strconv.Itoa(i)
			}
			lists = append(lists, fs)
		}
	}
	return lists
}
