package main

// Streams of the server request/reply layer (C15, C16).
//   srvasm   the real ModbusTCPAssembler.ReceiveRead driven directly with chunk sequences
//   srvconn  the real server.Server through Serve over an in-memory listener
//   srvtwo   two connections of one server, a panicking handler on one of them

import (
	"bytes"
	"context"
	"flag"
	"fmt"
	"net"
	"os"
	"os/exec"
	"sort"
	"strconv"
	"strings"
	"sync"
	"time"

	"github.com/aldas/go-modbus-client/server"
)

func init() {
	streams["srvasm"] = streamSrvAsm
	streams["srvconn"] = streamSrvConn
	streams["srvtwo"] = streamSrvTwo
	streams["srvcfgchild"] = streamSrvCfgChild // run by srvconn / srvtwo in child processes
}

// ---------- byte streams ----------

type srvStreamOpts struct {
	maxFrames  int
	allowPanic bool
	size       int // payload size class for legal frames; -1 random
	badPct     int // share of malformed / unsupported frames
	tailPct    int // share of streams with a partial or garbage tail
}

// srvStream builds 1..maxFrames request frames (library encoders; malformed and unsupported ones
// mixed in) and possibly a tail: a proper prefix of another frame, or non-Modbus bytes
func srvStream(r *rng, o srvStreamOpts) []byte {
	n := 1 + r.intn(o.maxFrames)
	var s []byte
	used := map[uint16]bool{}
	for i := 0; i < n; i++ {
		var tid uint16
		for {
			tid = srvTid(r, o.allowPanic)
			if !used[tid] {
				used[tid] = true
				break
			}
		}
		if r.intn(100) < o.badPct {
			s = append(s, srvBadFrame(r, tid)...)
			continue
		}
		size := o.size
		if size < 0 {
			size = []int{0, 0, 1, 1, 2}[r.intn(5)]
		}
		s = append(s, srvLegal(r, srvFcs[r.intn(10)], tid, size)...)
	}
	if r.intn(100) < o.tailPct {
		switch r.intn(3) {
		case 0:
			f := srvLegal(r, srvFcs[r.intn(10)], srvTid(r, false), 0)
			s = append(s, f[:1+r.intn(len(f)-1)]...)
		case 1:
			s = append(s, srvGarbage(r)...)
		default:
			g := srvGarbage(r)
			s = append(s, g[:1+r.intn(len(g))]...)
		}
	}
	return s
}

// ---------- srvasm ----------

// srvAsmRun drives one assembler with the chunks.  reuse: every chunk is copied into ONE read
// buffer and handed over as buf[:n], as connection.handle does with its 300-byte buffer; after the
// call the caller overwrites its buffer (it owns it again).
func srvAsmRun(mode int, chunks [][]byte, reuse bool) V {
	a := &server.ModbusTCPAssembler{Handler: srvHandler{mode}}
	size := 300
	for _, ch := range chunks {
		if len(ch) > size {
			size = len(ch)
		}
	}
	buf := make([]byte, size)
	var cum []byte
	var steps []V
	var raws, copies [][]byte
	for _, ch := range chunks {
		arg := ch
		if reuse {
			arg = buf[:copy(buf, ch)]
		}
		var raw []byte
		st := srvDirectStep(a, arg, &cum, &raw)
		raws, copies = append(raws, raw), append(copies, append([]byte(nil), raw...))
		if reuse {
			for i := range buf {
				buf[i] = 0xEE
			}
		}
		steps = append(steps, st)
		l := st.(vList)
		if l[2].(vInt) != 0 {
			break // closed or panicked: the connection goroutine would stop reading
		}
	}
	// look at the returned slices again: a response must not change once it has been returned
	// (a caller may queue it); flag 2 in place of the nil flag
	for i := range raws {
		if !bytes.Equal(raws[i], copies[i]) {
			l := steps[i].(vList)
			steps[i] = L(l[0], I(2), l[2])
		}
	}
	return L(steps...)
}

func srvRender(v V) string {
	var b strings.Builder
	v.put(&b)
	return b.String()
}

// srvAsmCase runs the chunks with fresh slices and with one reused read buffer; the second outcome
// is emitted as a case of its own only when it differs (it then disagrees with the model)
func srvAsmCase(mode int, chunks [][]byte) {
	args := L(I(mode), srvChunksV(chunks))
	whole := srvWhole(mode, srvConcat(chunks))
	fresh := srvAsmRun(mode, chunks, false)
	reused := srvAsmRun(mode, chunks, true)
	emit("srv_asm", args, L(fresh, whole))
	if srvRender(fresh) != srvRender(reused) {
		emit("srv_asm", args, L(reused, whole))
	}
}

// every one of the 2^(n-1) ways to cut s into non-empty chunks
func srvAllCuts(mode int, s []byte) {
	n := len(s)
	for mask := 0; mask < 1<<(n-1); mask++ {
		var cuts []int
		for i := 1; i < n; i++ {
			if mask&(1<<(i-1)) != 0 {
				cuts = append(cuts, i)
			}
		}
		srvAsmCase(mode, srvCut(s, cuts))
	}
}

func srvRandomCuts(r *rng, n int) []int {
	k := 1 + r.intn(6)
	if r.intn(4) == 0 {
		k = 1 + r.intn(n)
	}
	set := map[int]bool{}
	for i := 0; i < k && n > 1; i++ {
		set[1+r.intn(n-1)] = true
	}
	var cuts []int
	for p := range set {
		cuts = append(cuts, p)
	}
	sort.Ints(cuts)
	return cuts
}

// single cuts, double cuts (all, or a sample for long streams) and random cut sets of s
func srvLongCuts(r *rng, mode int, s []byte, doubleBudget, randomN int) {
	n := len(s)
	srvAsmCase(mode, [][]byte{s})
	for i := 1; i < n; i++ {
		srvAsmCase(mode, srvCut(s, []int{i}))
	}
	pairs := (n - 1) * (n - 2) / 2
	if pairs <= doubleBudget {
		for i := 1; i < n; i++ {
			for j := i + 1; j < n; j++ {
				srvAsmCase(mode, srvCut(s, []int{i, j}))
			}
		}
	} else {
		for k := 0; k < doubleBudget; k++ {
			i := 1 + r.intn(n-2)
			j := i + 1 + r.intn(n-1-i)
			srvAsmCase(mode, srvCut(s, []int{i, j}))
		}
	}
	for k := 0; k < randomN; k++ {
		srvAsmCase(mode, srvCut(s, srvRandomCuts(r, n)))
	}
	// an empty chunk in between (a direct call may pass one; the server skips n = 0 reads)
	srvAsmCase(mode, [][]byte{s[:n/2], {}, s[n/2:]})
}

func streamSrvAsm(seed uint64, thorough bool) {
	r := newRng(seed ^ 0x5e15)
	vol := 1
	if thorough {
		vol = 10
	}
	// --- corpus: the pinned tree's failures (all repaired) ---
	fc3 := []byte{0x12, 0x30, 0, 0, 0, 6, 1, 3, 0, 0x6B, 0, 3}
	srvAsmCase(0, [][]byte{fc3[:9], fc3[9:]})                                                                 // early reply (D4 i)
	srvAsmCase(0, [][]byte{append(append([]byte{}, fc3...), srvSetTid(append([]byte{}, fc3...), 0x1231)...)}) // pipelined (D4 ii)
	srvAsmCase(0, [][]byte{{0, 1, 0, 0, 0, 2, 1, 17}})                                                        // FC17 (D3)
	srvAsmCase(0, [][]byte{srvSetTid(append([]byte{}, fc3...), 0x1235)})                                      // handler error addressing (D5)
	srvAsmCase(0, [][]byte{{0, 9, 0, 0, 0, 2, 0x11, 7}, fc3})                                                 // 1-byte PDU, FC7 (finding 150)

	// --- exhaustive: all cut sets of streams of at most 16 bytes ---
	var short [][]byte
	for _, fc := range []int{1, 2, 3, 4, 5, 6} { // 12 bytes
		short = append(short, srvLegal(r, fc, srvTid(r, false)&^4, 0))
	}
	for _, cls := range []uint16{4, 5, 6, 7, 14} { // handler errors and panics on a 12-byte request
		short = append(short, srvLegal(r, 3, r.u16()&^7|cls&7|(cls&8), 0))
	}
	f17 := func(tid uint16) []byte { return srvLegal(r, 17, tid, 0) }
	short = append(short,
		f17(0x0100),
		append(f17(0x0200), f17(0x0301)...),                                                 // two pipelined 8-byte requests
		append(f17(0x0204), f17(0x0302)...),                                                 // handler error, then a response
		append(f17(0x0206), f17(0x0302)...),                                                 // handler panic, then a request
		append(f17(0x0200), srvLegal(r, 3, 0x0401, 0)[:7]...),                               // request + partial
		append(srvLegal(r, 3, 0x0500, 0), srvLegal(r, 4, 0x0601, 0)[:4]...),                 // 12 + 4
		append(f17(0x0700), []byte("GET / HT")...),                                          // request + garbage
		srvRawFrame(0x0801, 9, 0x2B, []byte{14, 1, 0}),                                      // unsupported function 43
		append(srvRawFrame(0x0901, 9, 8, []byte{0}), f17(0x0a01)...),                        // unsupported, then supported
		srvRawFrame(0x0b01, 3, 0x83, []byte{2}),                                             // function code >= 128
		srvFixLen(srvLegal(r, 3, 0x0c00, 0)[:10]),                                           // truncated body
		func() []byte { b := srvLegal(r, 3, 0x0d00, 0); b[10], b[11] = 0, 126; return b }(), // quantity out of range
		[]byte{0, 1, 0, 1, 0, 6, 1, 3, 0, 0, 0, 1},                                          // protocol id 1
		[]byte{0, 1, 0, 0, 0, 1, 1, 3, 0, 0, 0, 1},                                          // length field 1
		append(f17(0x0e00), 0, 1, 0, 0, 0, 2, 1, 7),                                         // request + 1-byte PDU FC7
		srvLegal(r, 16, 0x0f00, 0)[:15],                                                     // FC16, one register (15 bytes)
	)
	for i, s := range short {
		if len(s) > 16 {
			s = s[:16]
		}
		if !thorough && len(s) > 13 && i%3 != 0 {
			// quick tier: all cut sets for a third of the 14..16 byte streams, a sample of 4096 for the others
			for k := 0; k < 4096; k++ {
				var cuts []int
				m := r.next()
				for j := 1; j < len(s); j++ {
					if m&(1<<uint(j)) != 0 {
						cuts = append(cuts, j)
					}
				}
				srvAsmCase(0, srvCut(s, cuts))
			}
			continue
		}
		srvAllCuts(0, s)
	}
	srvAllCuts(1, short[0]) // the silent handler: nothing is ever returned

	// --- longer streams: 1..4 frames of all functions ---
	for _, fc := range srvFcs { // every function alone, small and maximal payload
		srvLongCuts(r, 0, srvLegal(r, fc, srvTid(r, false)&^4, 0), 600, 20)
		srvLongCuts(r, 0, srvLegal(r, fc, srvTid(r, false)&^4, 2), 100*vol, 20)
	}
	for i := 0; i < 40*vol; i++ { // legal frames only
		srvLongCuts(r, 0, srvStream(r, srvStreamOpts{maxFrames: 4, size: 0, tailPct: 30}), 150, 30)
	}
	for i := 0; i < 60*vol; i++ { // malformed, unsupported, handler errors and panics mixed in
		srvLongCuts(r, 0, srvStream(r, srvStreamOpts{maxFrames: 4, allowPanic: true, size: 0, badPct: 40, tailPct: 40}), 100, 30)
	}
	for i := 0; i < 30*vol; i++ { // all payload sizes
		srvLongCuts(r, 0, srvStream(r, srvStreamOpts{maxFrames: 4, allowPanic: i%3 == 0, size: -1, badPct: 25, tailPct: 30}), 40, 30)
	}
	for i := 0; i < 200*vol; i++ { // every malformed shape alone and behind a legal frame
		b := srvBadFrame(r, srvTid(r, true))
		srvLongCuts(r, 0, b, 30, 5)
		srvLongCuts(r, 0, append(srvLegal(r, srvFcs[r.intn(10)], srvTid(r, false), 0), b...), 0, 10)
	}
	for i := 0; i < 100*vol; i++ { // garbage
		srvLongCuts(r, 0, srvGarbage(r), 20, 5)
	}
	for i := 0; i < 10*vol; i++ {
		srvLongCuts(r, 1, srvStream(r, srvStreamOpts{maxFrames: 3, size: 0, badPct: 20, tailPct: 20}), 0, 10)
	}
	// --- the handler returns the same *ErrorParseTCP instance for many requests (error sentinels) ---
	rq := newRng(seed ^ 0x5e270)
	for i := 0; i < 60*vol; i++ {
		srvLongCuts(rq, 0, srvSentinelStream(rq), 20, 10)
	}
	// --- one read completes requests whose replies total more than 1024 / 2048 / 4096 bytes ---
	rb := newRng(seed ^ 0xb16)
	srvBigReplyStreams(rb, func(s []byte) {
		srvAsmCase(0, [][]byte{s})
		for _, sz := range []int{300, 299, 120, 36, 13} {
			srvAsmCase(0, srvFixedChunks(s, sz))
		}
		for k := 0; k < 6; k++ {
			srvAsmCase(0, srvCut(s, srvRandomCuts(rb, len(s))))
			srvAsmCase(0, srvCut(s, []int{1 + rb.intn(len(s)-1)}))
		}
	})
	// --- frames whose MBAP length field exceeds the largest legal ADU, a normal request behind them ---
	ro := newRng(seed ^ 0x0ae5)
	for v := 0; v < vol; v++ {
		srvOversizeStreams(ro, func(s []byte) { srvBigCuts(ro, s) })
	}
}

// srvFixedChunks cuts s into chunks of n bytes
func srvFixedChunks(s []byte, n int) [][]byte {
	var cuts []int
	for p := n; p < len(s); p += n {
		cuts = append(cuts, p)
	}
	return srvCut(s, cuts)
}

// srvBigCuts: a long stream whole, in the 300-byte slices of the connection loop, byte by byte and
// in other fixed sizes, with single cuts at the interesting and at random positions, and random cut sets
func srvBigCuts(r *rng, s []byte) {
	n := len(s)
	srvAsmCase(0, [][]byte{s})
	for _, sz := range []int{300, 1, 7, 64, 299, 301} {
		srvAsmCase(0, srvFixedChunks(s, sz))
	}
	first := 6 + int(s[4])<<8 + int(s[5]) // end of the oversize frame
	pos := map[int]bool{}
	for i := 1; i <= 20; i++ {
		pos[i] = true
	}
	for _, c := range []int{first, 300, 600, 900, n - 12, n - 4} {
		for d := -2; d <= 2; d++ {
			pos[c+d] = true
		}
	}
	for i := 0; i < 15; i++ {
		pos[1+r.intn(n-1)] = true
	}
	for p := range pos {
		if p <= 0 || p >= n {
			delete(pos, p)
		}
	}
	var ps []int
	for p := range pos {
		ps = append(ps, p)
	}
	sort.Ints(ps)
	for _, p := range ps {
		srvAsmCase(0, srvCut(s, []int{p}))
	}
	for k := 0; k < 8; k++ {
		srvAsmCase(0, srvCut(s, srvRandomCuts(r, n)))
	}
}

// ---------- srvconn ----------

// srvFrameEnds: the end offsets of the request ADUs of s as cut by the length fields (used by the
// lock-step client to know when to wait; stops at the first header it cannot interpret)
func srvFrameEnds(s []byte) []int {
	var ends []int
	off := 0
	for len(s)-off >= 8 {
		n := 6 + int(s[off+4])<<8 + int(s[off+5])
		if n < 8 || off+n > len(s) {
			break
		}
		off += n
		ends = append(ends, off)
	}
	return ends
}

// srvConnCase runs one connection against the rig.  kind 0: lock-step client (waits until the
// server has handled a complete request before sending the next), 1: client that sends the chunks
// back to back, 2: everything is already buffered when the server starts reading.
func srvConnCase(g *srvRig, mode, kind int, chunks [][]byte) (args []V, outcome []V) {
	return srvConnCaseW(g, mode, kind, chunks, nil)
}

func srvConnCaseW(g *srvRig, mode, kind int, chunks [][]byte, wf *srvFailW) (args []V, outcome []V) {
	stream := srvConcat(chunks)
	before := g.nerr.Load()
	var rec *srvRec
	var fail error
	if kind == 2 {
		bc := newSrvBuf(stream)
		rec = newSrvRec(bc)
		g.lis.ch <- rec
		select {
		case <-bc.idle:
			bc.sendEOF()
		case <-rec.closed:
		}
		fail = srvWait(rec.closed)
	} else {
		k := g.dialW(wf)
		rec = k.rec
		ends := srvFrameEnds(stream)
		sent, e := 0, 0
		for _, ch := range chunks {
			if !k.send(ch) {
				break
			}
			sent += len(ch)
			if kind == 0 {
				for e < len(ends) && ends[e] <= sent {
					e++
					if !k.barrier() {
						break
					}
				}
			}
		}
		k.barrier()
		fail = k.finish()
		if fail == nil && !bytes.Equal(k.got, rec.written) {
			fail = errSrvTimeout // what the client received differs from what the server wrote
		}
	}
	rec.mu.Lock()
	reads := append([][]byte(nil), rec.reads...)
	rec.mu.Unlock()
	args = []V{srvChunksV(reads), B(stream)}
	if fail != nil {
		return args, []V{L(), I(99), I(0)}
	}
	outcome = g.connOutcome(rec, before)
	srvMarkFailedWrite(outcome, wf)
	return args, outcome
}

// the connection ended after the scripted write failure (reported like any connection error)
func srvMarkFailedWrite(outcome []V, wf *srvFailW) {
	if wf != nil && wf.failed.Load() && len(outcome) == 3 {
		if st, ok := outcome[1].(vInt); ok && st == 2 {
			outcome[1] = I(3)
		}
	}
}

// srvEmitConnW: a pipe client (kind 0 or 1) against a server side whose j-th Write fails after ks bytes
func srvEmitConnW(g *srvRig, mode, kind int, chunks [][]byte, j, ks int) {
	stream := srvConcat(chunks)
	w := L(I(j), I(ks))
	if !g.begin("srv_conn", L(I(mode), I(kind), srvChunksV(chunks), B(stream), w)) {
		return
	}
	args, outc := srvConnCaseW(g, mode, kind, chunks, &srvFailW{failAt: j, ks: ks})
	emit("srv_conn", L(append(append([]V{I(mode), I(kind)}, args...), w)...), L(append(outc, srvWhole(mode, stream))...))
	g.end()
}

func srvEmitConn(g *srvRig, mode, kind int, chunks [][]byte) {
	stream := srvConcat(chunks)
	if !g.begin("srv_conn", g.caseArgs(I(mode), I(kind), srvChunksV(chunks), B(stream))) {
		return
	}
	args, outc := srvConnCase(g, mode, kind, chunks)
	emit("srv_conn", g.caseArgs(append([]V{I(mode), I(kind)}, args...)...), L(append(outc, srvWhole(mode, stream))...))
	g.end()
}

// srvEmitScript runs one connection whose reads follow the script (client kind 3): data with and
// without a deadline error, empty deadline reads, write deadline enforced
func srvEmitScript(g *srvRig, mode int, events []srvEvent) { srvEmitScriptW(g, mode, events, nil) }

func srvEmitScriptW(g *srvRig, mode int, events []srvEvent, wf *srvFailW) {
	var stream []byte
	for _, ev := range events {
		stream = append(stream, ev.data...)
	}
	intended := make([]V, len(events))
	for i, ev := range events {
		intended[i] = L(B(ev.data), Bool(ev.dl))
	}
	caseArgs := func(reads V) V {
		if wf != nil {
			return L(I(mode), I(3), reads, B(stream), L(I(wf.failAt), I(wf.ks)))
		}
		return g.caseArgs(I(mode), I(3), reads, B(stream))
	}
	if !g.begin("srv_conn", caseArgs(L(intended...))) {
		return
	}
	defer g.end()
	before := g.nerr.Load()
	sc := newSrvScript(events)
	var side net.Conn = sc
	if wf != nil {
		wf.Conn = sc
		side = wf
	}
	rec := newSrvRec(side)
	g.lis.ch <- rec
	select {
	case <-sc.idle:
		sc.sendEOF()
	case <-rec.closed:
	}
	fail := srvWait(rec.closed)
	rec.mu.Lock()
	reads := srvReadsV(rec.reads, rec.flags)
	rec.mu.Unlock()
	outc := []V{L(), I(99), I(0)}
	if fail == nil {
		outc = g.connOutcome(rec, before)
		srvMarkFailedWrite(outc, wf)
	}
	emit("srv_conn", caseArgs(reads), L(append(outc, srvWhole(mode, stream))...))
}

// srvEvents turns chunks into read events: how selects the error that comes with the data
// (0 never, 1 always the deadline error, 2 mixed) and whether empty deadline reads are mixed in
func srvEvents(r *rng, chunks [][]byte, how int, empties bool) []srvEvent {
	var evs []srvEvent
	for _, ch := range chunks {
		if empties && r.intn(3) == 0 {
			evs = append(evs, srvEvent{nil, r.intn(4) != 0}) // (0, deadline), rarely (0, nil)
		}
		dl := how == 1 || (how == 2 && r.bool())
		evs = append(evs, srvEvent{ch, dl})
	}
	if empties && r.bool() {
		evs = append(evs, srvEvent{nil, true})
	}
	return evs
}

// cuts of s that respect the frame ends (lock-step clients never have two requests in flight)
func srvLockstepChunks(r *rng, s []byte) [][]byte {
	ends := srvFrameEnds(s)
	set := map[int]bool{}
	for _, e := range ends {
		if e < len(s) {
			set[e] = true
		}
	}
	for i := r.intn(4); i > 0 && len(s) > 1; i-- {
		set[1+r.intn(len(s)-1)] = true
	}
	var cuts []int
	for p := range set {
		cuts = append(cuts, p)
	}
	sort.Ints(cuts)
	return srvCut(s, cuts)
}

func streamSrvConn(seed uint64, thorough bool) {
	r := newRng(seed ^ 0xc0221)
	vol := 1
	if thorough {
		vol = 10
	}
	paused := srvPausedStart(seed) // runs beside everything below, emitted at the end
	g := newSrvRig(0)
	// corpus
	fc3 := []byte{0x12, 0x30, 0, 0, 0, 6, 1, 3, 0, 0x6B, 0, 3}
	srvEmitConn(g, 0, 1, [][]byte{fc3[:9], fc3[9:]})
	srvEmitConn(g, 0, 2, [][]byte{append(append([]byte{}, fc3...), srvSetTid(append([]byte{}, fc3...), 0x1231)...)})
	srvEmitConn(g, 0, 0, [][]byte{{0, 1, 0, 0, 0, 2, 1, 17}})
	// every cut set of a 12-byte request and of two pipelined 8-byte requests (sampled in the quick tier)
	for _, s := range [][]byte{srvLegal(r, 3, 0x2000, 0), append(srvLegal(r, 17, 0x2100, 0), srvLegal(r, 17, 0x2201, 0)...)} {
		n := len(s)
		step := 1
		if !thorough {
			step = 1 << uint(n-1) / 256
		}
		for mask := 0; mask < 1<<uint(n-1); mask += step {
			var cuts []int
			for i := 1; i < n; i++ {
				if mask&(1<<uint(i-1)) != 0 {
					cuts = append(cuts, i)
				}
			}
			srvEmitConn(g, 0, 1, srvCut(s, cuts))
		}
	}
	for _, fc := range srvFcs {
		for size := 0; size < 3; size += 2 {
			s := srvLegal(r, fc, srvTid(r, false)&^4, size)
			srvEmitConn(g, 0, 0, [][]byte{s})
			for i := 1; i < len(s); i += 1 + len(s)/40 {
				srvEmitConn(g, 0, 1, srvCut(s, []int{i}))
			}
		}
	}
	for i := 0; i < 250*vol; i++ {
		o := srvStreamOpts{maxFrames: 4, allowPanic: i%4 == 0, size: []int{0, 0, -1}[i%3], badPct: 25, tailPct: 25}
		s := srvStream(r, o)
		srvEmitConn(g, 0, 0, srvLockstepChunks(r, s))
		srvEmitConn(g, 0, 1, srvCut(s, srvRandomCuts(r, len(s))))
		srvEmitConn(g, 0, 1, srvCut(s, srvRandomCuts(r, len(s))))
		srvEmitConn(g, 0, 2, [][]byte{s})
	}
	for i := 0; i < 10*vol; i++ { // streams longer than the 300-byte read buffer, written at once
		s := srvStream(r, srvStreamOpts{maxFrames: 4, size: 2, tailPct: 20})
		srvEmitConn(g, 0, 1, [][]byte{s})
		srvEmitConn(g, 0, 2, [][]byte{s})
	}
	// frames whose MBAP length field exceeds the largest legal ADU, a normal request behind them
	ro := newRng(seed ^ 0x0ae6)
	for v := 0; v < vol; v++ {
		srvOversizeStreams(ro, func(s []byte) {
			srvEmitConn(g, 0, 1, [][]byte{s}) // one write: the pipe hands it over in 300-byte reads
			srvEmitConn(g, 0, 2, [][]byte{s})
			srvEmitConn(g, 0, 0, srvLockstepChunks(ro, s))
			srvEmitConn(g, 0, 1, srvCut(s, srvRandomCuts(ro, len(s))))
		})
	}
	// --- reads that return bytes together with the deadline error, empty deadline reads (kind 3) ---
	rs := newRng(seed ^ 0x5c217)
	reqA := srvLegal(rs, 3, 0x3000, 0)
	reqB := srvLegal(rs, 17, 0x3101, 0)
	ab := append(append([]byte{}, reqA...), reqB...)
	// the first 6 bytes of A with a deadline error, then the rest of A and B
	srvEmitScript(g, 0, []srvEvent{{ab[:6], true}, {ab[6:], false}})
	srvEmitScript(g, 0, []srvEvent{{ab[:6], true}, {nil, true}, {ab[6:], true}, {nil, true}})
	for i := 1; i < len(ab); i++ { // every single cut x every combination of errors
		for f := 0; f < 4; f++ {
			srvEmitScript(g, 0, []srvEvent{{ab[:i], f&1 != 0}, {ab[i:], f&2 != 0}})
		}
	}
	for i := 0; i < 256; i++ { // cut sets of the 12-byte request, every read with the deadline error
		mask := i * 8
		var cuts []int
		for j := 1; j < len(reqA); j++ {
			if mask&(1<<uint(j-1)) != 0 {
				cuts = append(cuts, j)
			}
		}
		srvEmitScript(g, 0, srvEvents(rs, srvCut(reqA, cuts), 1+i%2, i%4 == 0))
	}
	for _, fc := range srvFcs {
		for size := 0; size < 3; size += 2 {
			s := srvLegal(rs, fc, srvTid(rs, false)&^4, size)
			srvEmitScript(g, 0, srvEvents(rs, [][]byte{s}, 1, false))
			srvEmitScript(g, 0, srvEvents(rs, srvCut(s, srvRandomCuts(rs, len(s))), 2, true))
		}
	}
	for i := 0; i < 250*vol; i++ {
		o := srvStreamOpts{maxFrames: 4, allowPanic: i%4 == 0, size: []int{0, 0, -1}[i%3], badPct: 25, tailPct: 25}
		s := srvStream(rs, o)
		srvEmitScript(g, 0, srvEvents(rs, srvLockstepChunks(rs, s), 2, i%2 == 0))
		srvEmitScript(g, 0, srvEvents(rs, srvCut(s, srvRandomCuts(rs, len(s))), 1+i%2, true))
		srvEmitScript(g, 0, srvEvents(rs, [][]byte{s}, 1, false)) // longer than 300: split by the script
	}
	for v := 0; v < vol; v++ {
		n := 0
		srvOversizeStreams(rs, func(s []byte) {
			if n%4 == 0 {
				srvEmitScript(g, 0, srvEvents(rs, srvCut(s, srvRandomCuts(rs, len(s))), 2, true))
				srvEmitScript(g, 0, srvEvents(rs, srvFixedChunks(s, 300), 1, false))
			}
			n++
		})
	}
	// --- the handler returns THE SAME *ErrorParseTCP instance for many requests (error sentinels) ---
	rq := newRng(seed ^ 0x5e271)
	for i := 0; i < 60*vol; i++ {
		s := srvSentinelStream(rq)
		srvEmitConn(g, 0, 0, srvLockstepChunks(rq, s))
		srvEmitConn(g, 0, 1, srvCut(s, srvRandomCuts(rq, len(s))))
		srvEmitConn(g, 0, 2, [][]byte{s})
		srvEmitScript(g, 0, srvEvents(rq, srvCut(s, srvRandomCuts(rq, len(s))), 2, true))
	}
	// --- one read completes requests whose replies total more than 1024 / 2048 / 4096 bytes ---
	srvBigReplyStreams(rq, func(s []byte) {
		srvEmitConn(g, 0, 1, [][]byte{s}) // 300-byte reads
		srvEmitConn(g, 0, 2, [][]byte{s})
		srvEmitConn(g, 0, 1, srvFixedChunks(s, 120))
		srvEmitScript(g, 0, srvEvents(rq, srvFixedChunks(s, 300), 2, true))
		srvEmitScript(g, 0, srvEvents(rq, srvCut(s, srvRandomCuts(rq, len(s))), 2, false))
	})
	// --- a Write that times out after the peer took k bytes of it: k = 0, 1, 4, all but one ---
	for i := 0; i < 40*vol; i++ {
		var s []byte
		used := map[uint16]bool{}
		for f := 0; f < 3+rq.intn(2); f++ {
			t := srvTid(rq, false)
			for used[t] {
				t = srvTid(rq, false)
			}
			used[t] = true
			s = append(s, srvLegal(rq, srvFcs[rq.intn(10)], t, 0)...)
		}
		j := rq.intn(3)
		for _, ks := range []int{0, 1, 4, -1} {
			srvEmitConnW(g, 0, i%2, srvLockstepChunks(rq, s), j, ks)
			srvEmitScriptW(g, 0, srvEvents(rq, srvLockstepChunks(rq, s), 2, i%2 == 0), &srvFailW{failAt: j, ks: ks})
		}
		// several replies in the failing write
		srvEmitConnW(g, 0, 1, [][]byte{s}, 0, []int{0, 1, 4, 9, 10, -1}[rq.intn(6)])
	}
	ok := g.stop()

	// --- a handler slower than the write timeout (20 ms / 60 ms): every request is still answered ---
	g2 := newSrvRig(2)
	for i := 0; i < 4*vol; i++ {
		s := srvStream(rs, srvStreamOpts{maxFrames: 3, size: 0, badPct: 15})
		srvEmitConn(g2, 2, 0, srvLockstepChunks(rs, s))
		srvEmitConn(g2, 2, 1, srvCut(s, srvRandomCuts(rs, len(s))))
		srvEmitScript(g2, 2, srvEvents(rs, srvCut(s, srvRandomCuts(rs, len(s))), 2, true))
		srvEmitScript(g2, 2, srvEvents(rs, srvLockstepChunks(rs, s), 0, false))
	}
	ok = g2.stop() && ok

	g1 := newSrvRig(1) // the silent handler: no Write call at all
	for i := 0; i < 10*vol; i++ {
		s := srvStream(r, srvStreamOpts{maxFrames: 3, size: 0, tailPct: 20})
		srvEmitConn(g1, 1, i%3, srvCut(s, srvRandomCuts(r, len(s))))
	}
	ok = g1.stop() && ok
	// every combination of callbacks set / left nil x every handler class, in child processes
	srvCfgChildren(seed, thorough, "conn")
	paused()
	if !ok {
		emit("srv_conn", L(I(0), I(9), L(), B(nil)), L(L(), I(98), I(0), L(B(nil), I(1), I(0))))
	}
}

// ---------- slow clients: a real pause between the fragments of one request ----------

// srvPause is longer than any "the client has given up" heuristic of a second, and far below the
// server's idle timeout (25 s): the connection must be kept and the request answered when its
// rest arrives, whatever the pause.
const srvPause = 1300 * time.Millisecond

// srvPausedStart starts the slow-client cases (client kind 4), each on a server of its own and
// all at the same time, and returns the function that waits for them and emits them in order.
func srvPausedStart(seed uint64) func() {
	r := newRng(seed ^ 0x9a05e)
	type pcase struct {
		g      *srvRig
		chunks [][]byte
		pause  []bool // sleep after chunk i
		args   V
		outc   V
	}
	var cases []*pcase
	add := func(chunks [][]byte, pause ...bool) {
		cases = append(cases, &pcase{g: newSrvRig(0), chunks: chunks, pause: pause})
	}
	a := srvLegal(r, 3, 0x6000, 0) // 12 bytes
	for _, c := range []int{1, 6, 7, 8, len(a) - 1} {
		b := srvLegal(r, srvFcs[r.intn(10)], 0x6101+uint16(c)<<4, 0) // the next request must not be glued to anything
		add([][]byte{a[:c], a[c:], b}, true, false, false)
	}
	w := srvLegal(r, 16, 0x6200, 1) // a longer request in three fragments, two pauses
	add([][]byte{w[:9], w[9 : len(w)/2+5], w[len(w)/2+5:], srvLegal(r, 17, 0x6301, 0)}, true, true, false, false)

	var wg sync.WaitGroup
	for _, pc := range cases {
		wg.Add(1)
		go func(pc *pcase) {
			defer wg.Done()
			stream := srvConcat(pc.chunks)
			k := pc.g.dial()
			for i, ch := range pc.chunks {
				if !k.send(ch) {
					break
				}
				if pc.pause[i] {
					time.Sleep(srvPause)
				}
			}
			k.barrier()
			fail := k.finish()
			if fail == nil && !bytes.Equal(k.got, k.rec.written) {
				fail = errSrvTimeout
			}
			k.rec.mu.Lock()
			reads := srvChunksV(k.rec.reads)
			k.rec.mu.Unlock()
			outc := []V{L(), I(99), I(0)}
			if fail == nil {
				outc = pc.g.connOutcome(k.rec, 0)
			}
			if !pc.g.stop() {
				outc = []V{L(), I(98), I(0)}
			}
			pc.args = L(I(0), I(4), reads, B(stream))
			pc.outc = L(append(outc, srvWhole(0, stream))...)
		}(pc)
	}
	return func() {
		wg.Wait()
		for _, pc := range cases {
			emit("srv_conn", pc.args, pc.outc)
		}
	}
}

// ---------- srvtwo ----------

// Two connections A and B of one server.  B sends the first part of its chunks, then A sends all
// of its chunks (one of its requests makes the handler panic), then B sends the rest; finally a
// third connection must be accepted and answered.
func streamSrvTwo(seed uint64, thorough bool) {
	r := newRng(seed ^ 0x2c0)
	n := 150
	if thorough {
		n = 1500
	}
	g := newSrvRig(0)
	probe := srvLegal(r, 3, 0x4000, 0)
	for i := 0; i < n; i++ {
		srvTwoCase(g, r, i%5 != 4, probe)
	}
	rq := newRng(seed ^ 0x2c1)
	for i := 0; i < n/3; i++ { // the shared error sentinels on two connections at once
		srvTwoCaseS(g, rq, i%4 == 3, true, probe)
	}
	if !g.stop() {
		emit("srv_two", L(I(0), L(), B(nil), L(), B(nil)), L(L(L(), I(98), I(0)), L(L(), I(0), I(0)), I(0)))
	}
	// the same on servers with every combination of callbacks set / left nil, in child processes
	srvCfgChildren(seed, thorough, "two")
}

func srvTwoCase(g *srvRig, r *rng, withPanic bool, probe []byte) {
	srvTwoCaseS(g, r, withPanic, false, probe)
}

// sentinel: both connections carry requests answered with the shared error sentinels
func srvTwoCaseS(g *srvRig, r *rng, withPanic, sentinel bool, probe []byte) {
	sa := srvStream(r, srvStreamOpts{maxFrames: 3, size: 0, badPct: 20})
	if sentinel {
		sa = srvSentinelStream(r)
	}
	// a request that panics, somewhere in A's stream
	pf := srvLegal(r, srvFcs[r.intn(10)], r.u16()&^7|6, 0)
	if withPanic {
		ends := append([]int{0}, srvFrameEnds(sa)...)
		at := ends[r.intn(len(ends))]
		sa = append(append(append([]byte{}, sa[:at]...), pf...), sa[at:]...)
	}
	sb := srvStream(r, srvStreamOpts{maxFrames: 4, size: 0, badPct: 20, tailPct: 10})
	if sentinel {
		sb = srvSentinelStream(r)
	}
	ca := srvCut(sa, srvRandomCuts(r, len(sa)))
	cb := srvCut(sb, srvRandomCuts(r, len(sb)))
	half := r.intn(len(cb) + 1)
	if !g.begin("srv_two", g.caseArgs(I(0), srvChunksV(ca), B(sa), srvChunksV(cb), B(sb))) {
		return
	}
	defer g.end()

	before := g.nerr.Load()
	b := g.dial()
	a := g.dial()
	okB := true
	for _, ch := range cb[:half] {
		okB = okB && b.send(ch)
	}
	okB = okB && b.barrier()
	for _, ch := range ca {
		if !a.send(ch) {
			break
		}
	}
	a.barrier()
	failA := a.finish()
	midErr := g.nerr.Load()
	outA := g.connOutcome(a.rec, before)
	for _, ch := range cb[half:] {
		okB = okB && b.send(ch)
	}
	b.barrier()
	failB := b.finish()
	outB := g.connOutcome(b.rec, midErr)
	// the server still serves
	c := g.dial()
	alive := c.send(probe) && c.barrier()
	failC := c.finish()
	if failC != nil || len(c.got) == 0 {
		alive = false
	}
	if failA != nil || failB != nil {
		outA = []V{L(), I(99), I(0)}
	}
	a.rec.mu.Lock()
	ra := srvChunksV(a.rec.reads)
	a.rec.mu.Unlock()
	b.rec.mu.Lock()
	rb := srvChunksV(b.rec.reads)
	b.rec.mu.Unlock()
	emit("srv_two", g.caseArgs(I(0), ra, B(sa), rb, B(sb)), L(L(outA...), L(outB...), Bool(alive)))
}

// ---------- every server configuration, in child processes ----------
//
// A default-configured server (OnErrorFunc, OnCloseConnFunc, OnAcceptConnFunc, OnServeFunc each
// independently nil) must survive every handler behaviour, a panic included.  A defect there kills
// the process, so these cases run in child invocations of this binary (hidden stream srvcfgchild):
// the child names each case on stderr before running it and flushes after it; when a child dies
// the parent emits that case with status 95 and restarts the child behind it.

var (
	srvCfgFlag   = flag.Int("srvcfg", 0, "srvcfgchild: callbacks set (1 error, 2 close, 4 accept, 8 serve)")
	srvSkipFlag  = flag.Int("srvskip", 0, "srvcfgchild: number of cases to skip")
	srvWhichFlag = flag.String("srvwhich", "conn", "srvcfgchild: conn|two")
)

func streamSrvCfgChild(seed uint64, thorough bool) {
	cfg := *srvCfgFlag
	r := newRng(seed ^ 0xcf9 ^ uint64(cfg)<<20)
	g := newSrvRigCfg(0, cfg)
	g.tagCfg, g.announce, g.skip = true, true, *srvSkipFlag
	vol := 1
	if thorough {
		vol = 4
	}
	if *srvWhichFlag == "two" {
		probe := srvLegal(r, 3, 0x4000, 0)
		for i := 0; i < 3*vol; i++ {
			srvTwoCase(g, r, i%3 != 2, probe)
		}
		srvTwoCaseS(g, r, false, true, probe)
	} else {
		// every handler class: response, typed, generic (errors.New / by value), wrapped, panic(), (nil, nil)
		classes := []uint16{0, 4, 5, 5 | 8, 7, 6, 6 | 8}
		for v := 0; v < vol; v++ {
			for _, cls := range classes {
				tid := func() uint16 { return r.u16()&^15 | cls }
				one := srvLegal(r, srvFcs[r.intn(10)], tid(), 0)
				three := append(append(srvLegal(r, srvFcs[r.intn(10)], srvTid(r, false)&^4, 0),
					srvLegal(r, srvFcs[r.intn(10)], tid(), 0)...), srvLegal(r, srvFcs[r.intn(10)], srvTid(r, false)&^4, 0)...)
				for _, s := range [][]byte{one, three} {
					srvEmitConn(g, 0, 1, srvCut(s, srvRandomCuts(r, len(s))))
					srvEmitScript(g, 0, srvEvents(r, srvCut(s, srvRandomCuts(r, len(s))), 2, true))
				}
			}
			for _, s := range [][]byte{
				append(srvLegal(r, 3, 0x5000, 0), srvGarbage(r)...),
				append(srvBadFrame(r, 0x5101), srvLegal(r, 4, 0x5200, 0)...),
				srvStream(r, srvStreamOpts{maxFrames: 4, allowPanic: true, size: 0, badPct: 30, tailPct: 30}),
				srvSentinelStream(r),
			} {
				srvEmitConn(g, 0, 0, srvLockstepChunks(r, s))
				srvEmitConn(g, 0, 2, [][]byte{s})
				srvEmitScript(g, 0, srvEvents(r, srvCut(s, srvRandomCuts(r, len(s))), 2, true))
			}
		}
	}
	if !g.stop() {
		emit("srv_conn", g.caseArgs(I(0), I(9), L(), B(nil)), L(L(), I(98), I(0), L(B(nil), I(1), I(0))))
	}
}

// srvCfgChildren runs the child for each of the 16 configurations and relays its cases
func srvCfgChildren(seed uint64, thorough bool, which string) {
	exe, err := os.Executable()
	tier := "quick"
	if thorough {
		tier = "thorough"
	}
	for cfg := 0; cfg < 16; cfg++ {
		skip := 0
		for attempt := 0; ; attempt++ {
			if err != nil || attempt > 60 {
				emit("srv_conn", L(I(0), I(9), L(), B(nil), I(cfg)), L(L(), I(98), I(0), L(B(nil), I(1), I(0))))
				break
			}
			ctx, cancel := context.WithTimeout(context.Background(), 5*time.Minute)
			cmd := exec.CommandContext(ctx, exe, "-seed", strconv.FormatUint(seed, 10), "-tier", tier,
				"-srvcfg", strconv.Itoa(cfg), "-srvskip", strconv.Itoa(skip), "-srvwhich", which, "srvcfgchild")
			var so, se bytes.Buffer
			cmd.Stdout, cmd.Stderr = &so, &se
			runErr := cmd.Run()
			cancel()
			// relay the complete lines the child produced
			text := so.String()
			if k := strings.LastIndexByte(text, '\n'); k >= 0 {
				for _, line := range strings.Split(text[:k], "\n") {
					out.WriteString(line)
					out.WriteByte('\n')
					emitted++
				}
			}
			if runErr == nil {
				break
			}
			// the child died: the last case it announced is the one that killed it
			no, entry, args := -1, "", ""
			var trace []string
			for _, line := range strings.Split(se.String(), "\n") {
				f := strings.SplitN(line, "\t", 4)
				if len(f) == 4 && f[0] == "SRVCASE" {
					no, _ = strconv.Atoi(f[1])
					entry, args = f[2], f[3]
					trace = nil
				} else if len(trace) < 12 && line != "" {
					trace = append(trace, line)
				}
			}
			if no < 0 {
				emit("srv_conn", L(I(0), I(9), L(), B(nil), I(cfg)), L(L(), I(98), I(0), L(B(nil), I(1), I(0))))
				break
			}
			fmt.Fprintf(os.Stderr, "observe: child process died (%v) in case %d of configuration %d: %s %s\n%s\n",
				runErr, no, cfg, entry, args, strings.Join(trace, "\n"))
			outcome := "[[],95,0,[x,1,0]]"
			if entry == "srv_two" {
				outcome = "[[[],95,0],[[],95,0],0]"
			}
			out.WriteString(entry + "\t" + args + "\t" + outcome + "\n")
			emitted++
			skip = no + 1
		}
	}
}
