package main

// Registers layer (properties C04 and C13): runs packet.NewRegisters and every accessor of
// packet.Registers from /repo on generated windows, addresses, byte orders and call sequences.
// Entries (see coq/DispRegisters.v): reg_new, reg_access3, reg_access3r, reg_seq (reads and WithByteOrder).

import (
	"bytes"
	"math"
	"strings"
	"sync"

	"github.com/aldas/go-modbus-client/packet"
)

func init() {
	streams["regnew"] = streamRegNew
	streams["regwin"] = streamRegWin
	streams["regorders"] = streamRegOrders
	streams["regstr"] = streamRegStr
	streams["regseq"] = streamRegSeq
	streams["regpar"] = streamRegPar
	streams["regshare"] = streamRegShare
}

// a slice with len(vis) visible bytes and the bytes of spare behind them, inside the capacity
func regWithCap(vis, spare []byte) []byte {
	buf := make([]byte, len(vis)+len(spare))
	copy(buf, vis)
	copy(buf[len(vis):], spare)
	return buf[:len(vis):len(buf)]
}

// one accessor call: code, address, two parameters (see DispRegisters.v for the codes)
type regCall struct {
	code int
	addr uint16
	p1   int
	p2   int
}

func (c regCall) val() V { return L(I(c.code), I(int(c.addr)), I(c.p1), I(c.p2)) }

func regErr(zero bool) V { return vErr(I(1), Bool(zero)) }

// regDo performs the call on r and projects the outcome: ok value / error (+ zero value?) / panic
func regDo(r *packet.Registers, c regCall) V {
	return guard(func() V {
		a := c.addr
		bo := packet.ByteOrder(uint8(c.p1))
		switch c.code {
		case 1:
			v, err := r.Bit(a, uint8(c.p1))
			if err != nil {
				return regErr(!v)
			}
			return vOk(Bool(v))
		case 2:
			v, err := r.Byte(a, c.p1 != 0)
			if err != nil {
				return regErr(v == 0)
			}
			return vOk(U(uint64(v)))
		case 3:
			v, err := r.Uint8(a, c.p1 != 0)
			if err != nil {
				return regErr(v == 0)
			}
			return vOk(U(uint64(v)))
		case 4:
			v, err := r.Int8(a, c.p1 != 0)
			if err != nil {
				return regErr(v == 0)
			}
			return vOk(I(int(v)))
		case 5:
			v, err := r.Uint16(a)
			if err != nil {
				return regErr(v == 0)
			}
			return vOk(U(uint64(v)))
		case 6:
			v, err := r.Int16(a)
			if err != nil {
				return regErr(v == 0)
			}
			return vOk(I(int(v)))
		case 7:
			v, err := r.Uint32(a)
			if err != nil {
				return regErr(v == 0)
			}
			return vOk(U(uint64(v)))
		case 8:
			v, err := r.Uint32WithByteOrder(a, bo)
			if err != nil {
				return regErr(v == 0)
			}
			return vOk(U(uint64(v)))
		case 9:
			v, err := r.Int32(a)
			if err != nil {
				return regErr(v == 0)
			}
			return vOk(I(int(v)))
		case 10:
			v, err := r.Int32WithByteOrder(a, bo)
			if err != nil {
				return regErr(v == 0)
			}
			return vOk(I(int(v)))
		case 11:
			v, err := r.Uint64(a)
			if err != nil {
				return regErr(v == 0)
			}
			return vOk(U(v))
		case 12:
			v, err := r.Uint64WithByteOrder(a, bo)
			if err != nil {
				return regErr(v == 0)
			}
			return vOk(U(v))
		case 13:
			v, err := r.Int64(a)
			if err != nil {
				return regErr(v == 0)
			}
			return vOk(vInt(v))
		case 14:
			v, err := r.Int64WithByteOrder(a, bo)
			if err != nil {
				return regErr(v == 0)
			}
			return vOk(vInt(v))
		case 15:
			v, err := r.Float32(a)
			if err != nil {
				return regErr(math.Float32bits(v) == 0)
			}
			return vOk(U(uint64(math.Float32bits(v))))
		case 16:
			v, err := r.Float32WithByteOrder(a, bo)
			if err != nil {
				return regErr(math.Float32bits(v) == 0)
			}
			return vOk(U(uint64(math.Float32bits(v))))
		case 17:
			v, err := r.Float64(a)
			if err != nil {
				return regErr(math.Float64bits(v) == 0)
			}
			return vOk(U(math.Float64bits(v)))
		case 18:
			v, err := r.Float64WithByteOrder(a, bo)
			if err != nil {
				return regErr(math.Float64bits(v) == 0)
			}
			return vOk(U(math.Float64bits(v)))
		case 19:
			v, err := r.String(a, uint8(c.p1))
			if err != nil {
				return regErr(v == "")
			}
			return vOk(S(v))
		case 20:
			v, err := r.StringWithByteOrder(a, uint8(c.p1), packet.ByteOrder(uint8(c.p2)))
			if err != nil {
				return regErr(v == "")
			}
			return vOk(S(v))
		case 21:
			v, err := r.Register(a)
			if err != nil {
				return regErr(v == nil)
			}
			return vOk(B(v))
		case 22:
			v, err := r.DoubleRegister(a, bo)
			if err != nil {
				return regErr(v == nil)
			}
			return vOk(B(v))
		case 23:
			v, err := r.QuadRegister(a, bo)
			if err != nil {
				return regErr(v == nil)
			}
			return vOk(B(v))
		case 24: // re-configuration inside a sequence: WithByteOrder(p1), every value 0..255
			if r2 := r.WithByteOrder(bo); r2 != r {
				return vErr(I(2))
			}
			return vOk()
		}
		panic("registers.go: unknown accessor code")
	})
}

// regNew creates the Registers object the way a user of the library gets one:
// route 0: packet.NewRegisters(data, start);
// route 1/2/3: a response VALUE {UnitID, RegisterByteLen, Data: data} of type ReadHoldingRegistersResponse /
// ReadInputRegistersResponse / ReadWriteMultipleRegistersResponse and its AsRegisters(start).
// RegisterByteLen is redundant with len(Data) (parsers set it to len(Data), but the fields are exported
// and response values are also built and edited by hand, e.g. by servers and tests): AsRegisters must
// go by Data alone.  blmode: 0 consistent, 1 zero, 2 len/2, 3 len+2 (all as uint8).
func regNew(data []byte, start uint16, route, blmode int) (*packet.Registers, error) {
	bl := uint8(len(data))
	switch blmode {
	case 1:
		bl = 0
	case 2:
		bl = uint8(len(data) / 2)
	case 3:
		bl = uint8(len(data) + 2)
	}
	switch route {
	case 1:
		return packet.ReadHoldingRegistersResponse{UnitID: 1, RegisterByteLen: bl, Data: data}.AsRegisters(start)
	case 2:
		return packet.ReadInputRegistersResponse{UnitID: 1, RegisterByteLen: bl, Data: data}.AsRegisters(start)
	case 3:
		return packet.ReadWriteMultipleRegistersResponse{UnitID: 1, RegisterByteLen: bl, Data: data}.AsRegisters(start)
	}
	return packet.NewRegisters(data, start)
}

// regMake: a Registers object (see regNew) on a private buffer (visible bytes + spare capacity),
// WithByteOrder when dflt >= 0.
// Returns the object (nil when refused), the whole buffer, and the refusal outcome.
func regMake(vis, spare []byte, start uint16, dflt int, route, blmode int) (r *packet.Registers, buf []byte, refused V) {
	data := regWithCap(vis, spare)
	buf = data[:cap(data)]
	refused = regOver(data, start, dflt, route, blmode, &r)
	return r, buf, refused
}

// regOver: a Registers object over the given slice (not copied)
func regOver(data []byte, start uint16, dflt int, route, blmode int, out **packet.Registers) V {
	return guard(func() V {
		r, err := regNew(data, start, route, blmode)
		if err != nil {
			return vErr(I(0), Bool(r == nil))
		}
		if dflt >= 0 {
			r2 := r.WithByteOrder(packet.ByteOrder(uint8(dflt)))
			if r2 != r {
				panic("WithByteOrder returned another object")
			}
		}
		*out = r
		return nil
	})
}

func regAccess1(vis, spare []byte, start uint16, dflt int, c regCall, route, blmode int) V {
	r, buf, refused := regMake(vis, spare, start, dflt, route, blmode)
	if refused != nil {
		return L(refused, B(buf))
	}
	o := regDo(r, c)
	return L(o, B(buf))
}

var regCases int

// regAccess3: one accessor call on the payload handed over with no spare capacity and with two
// different spare fillings.  About half of the cases (chosen by a hash of the case counter) obtain
// the Registers object through AsRegisters of one of the three register response types, with the
// RegisterByteLen field consistent, zero, halved or two too large (entry reg_access3r).
func regAccess3(vis, s1, s2 []byte, start uint16, dflt int, c regCall) {
	regCases++
	h := (uint64(regCases) * 0x9E3779B97F4A7C15) >> 33
	route, blmode := 0, 0
	if h&1 == 1 {
		route = 1 + int((h>>1)%3)
		blmode = int((h >> 8) % 4)
	}
	args := []V{B(vis), B(s1), B(s2), I(int(start)), I(dflt), I(c.code), I(int(c.addr)), I(c.p1), I(c.p2)}
	name := "reg_access3"
	if route != 0 {
		name = "reg_access3r"
		args = append(args, I(route), I(blmode))
	}
	emit(name, L(args...),
		L(regAccess1(vis, nil, start, dflt, c, route, blmode), regAccess1(vis, s1, start, dflt, c, route, blmode),
			regAccess1(vis, s2, start, dflt, c, route, blmode)))
}

// two different junk fillings of the same length
func regJunk(r *rng) ([]byte, []byte) {
	n := 1 + r.intn(24)
	if r.intn(8) == 0 {
		n = 1 + r.intn(300)
	}
	a := make([]byte, n)
	b := make([]byte, n)
	for i := range a {
		a[i] = byte(r.pick([]int{0, 1, 0x41, 0x7f, 0x80, 0xff, int(r.u8()), int(r.u8())}))
		b[i] = ^a[i]
	}
	return a, b
}

// payload bytes: random, with NULs, 0x7f/0x80/0xff boundaries and float specials mixed in
func regPayload(r *rng, count int) []byte {
	p := r.bytes(2 * count)
	switch r.intn(5) {
	case 0: // boundary alphabet
		for i := range p {
			p[i] = byte(r.pick([]int{0, 1, 0x7f, 0x80, 0xff, 0x41, 0x61, int(r.u8())}))
		}
	case 1: // printable text with an occasional NUL
		for i := range p {
			p[i] = byte(0x20 + r.intn(0x5f))
			if r.intn(12) == 0 {
				p[i] = 0
			}
		}
	case 2: // NaN / Inf / sign patterns at random places
		pats := [][]byte{{0x7f, 0xc0, 0, 0}, {0x7f, 0x80, 0, 1}, {0xff, 0x80, 0, 0}, {0x7f, 0xf0, 0, 0, 0, 0, 0, 1},
			{0x7f, 0xf8, 0, 0, 0, 0, 0, 0}, {0x80, 0, 0, 0}, {0xff, 0xff, 0xff, 0xff}, {0, 0, 0x80, 0x7f}, {1, 0, 0xf0, 0x7f, 0, 0, 0xf8, 0xff}}
		for k := 0; k < 1+count/2; k++ {
			pt := pats[r.intn(len(pats))]
			at := r.intn(len(p))
			copy(p[at:], pt)
		}
	}
	return p
}

var regBOCodes = []int{8, 10, 12, 14, 16, 18, 22, 23}
var regPlainCodes = []int{5, 6, 7, 9, 11, 13, 15, 17, 21}

// regRotor enumerates all (accessor, parameter) combinations round-robin, so that a stream of
// any length cycles through every accessor x byte order x bit / byte half / string length class
type regRotor struct {
	r *rng
	k int // accessor selection
	j int // byte order selection
}

func (t *regRotor) bo() int {
	t.j++
	switch m := t.j % 19; {
	case m == 17:
		return 16 + t.r.intn(240)
	case m == 18:
		return 255
	default:
		return m // 0..16
	}
}

func (t *regRotor) next(addr uint16) regCall {
	t.k++
	switch sel := t.k % 40; {
	case sel < 3:
		return regCall{1, addr, (t.k / 40) % 19, 0} // bits 0..18
	case sel < 6:
		return regCall{2 + sel%3, addr, (t.k / 40) % 2, 0}
	case sel < 15:
		return regCall{regPlainCodes[sel-6], addr, 0, 0}
	case sel < 31:
		return regCall{regBOCodes[(sel-15)%8], addr, t.bo(), 0}
	case sel < 35:
		return regCall{19, addr, t.r.pick([]int{0, 1, 2, 3, 4, 5, 7, 8, 16, 249, 250, 251, 254, 255, t.r.intn(256)}), 0}
	default:
		return regCall{20, addr, t.r.pick([]int{0, 1, 2, 3, 4, 5, 7, 8, 16, 249, 250, 251, 254, 255, t.r.intn(256)}), t.bo()}
	}
}

func (t *regRotor) dflt() int {
	switch t.r.intn(4) {
	case 0:
		return -1
	case 1:
		return t.r.intn(256)
	default:
		return t.r.intn(16)
	}
}

func regDedupe(xs []int) []uint16 {
	seen := map[int]bool{}
	var out []uint16
	for _, x := range xs {
		if x < 0 || x > 65535 || seen[x] {
			continue
		}
		seen[x] = true
		out = append(out, uint16(x))
	}
	return out
}

// every address within `near` of the window edges, their +-32768 images (the uint16 wrap of the old
// bounds arithmetic), the ends of the address space and a few random ones
func regAddresses(r *rng, start, count, near int) []uint16 {
	end := start + count
	var xs []int
	for d := -near; d <= near; d++ {
		xs = append(xs, start+d, end+d)
	}
	for d := -1; d <= 1; d++ {
		xs = append(xs, start+d+32768, start+d-32768, end+d+32768, end+d-32768, start+d+65536, end+d-65536)
	}
	xs = append(xs, 0, 1, 2, 3, 65532, 65533, 65534, 65535, 32767, 32768)
	for i := 0; i < 3; i++ {
		xs = append(xs, r.intn(65536))
		if count > 1 {
			xs = append(xs, start+r.intn(count))
		}
	}
	return regDedupe(xs)
}

func regStarts(r *rng, count, near, nrandom int) []uint16 {
	var xs []int
	top := 65536 - count
	for d := 0; d <= near; d++ {
		xs = append(xs, d, top-d, top+d) // top+d: window that would reach beyond 65535 (cannot be a real response)
	}
	xs = append(xs, 32768-count, 32768, 32767)
	for i := 0; i < nrandom; i++ {
		xs = append(xs, r.intn(top+1))
	}
	return regDedupe(xs)
}

// streamRegNew: NewRegisters on empty, one-byte, odd and even payloads, with and without spare capacity
func streamRegNew(seed uint64, thorough bool) {
	r := newRng(seed)
	one := func(vis, spare []byte, start uint16) {
		emit("reg_new", L(B(vis), B(spare), I(int(start))), guard(func() V {
			regs, err := packet.NewRegisters(regWithCap(vis, spare), start)
			if err != nil {
				return vErr(Bool(regs == nil))
			}
			if regs == nil {
				return vErr(I(7))
			}
			return vOk()
		}))
	}
	for n := 0; n <= 260; n++ {
		for _, st := range []uint16{0, 1, 65535, r.u16()} {
			one(r.bytes(n), nil, st)
			s1, _ := regJunk(r)
			one(r.bytes(n), s1, st)
		}
	}
	n := 300
	if thorough {
		n = 3000
	}
	for i := 0; i < n; i++ {
		s1, _ := regJunk(r)
		one(r.bytes(r.intn(600)), s1, r.edge16())
	}
	// refused payloads through the accessor entry as well (outcome: refused, buffer untouched)
	rot := &regRotor{r: r}
	for n := 0; n <= 9; n++ {
		for k := 0; k < 40; k++ {
			s1, s2 := regJunk(r)
			regAccess3(r.bytes(n), s1, s2, r.edge16(), rot.dflt(), rot.next(r.edge16()))
		}
	}
}

// streamRegWin: C04 main sweep -- windows of 1..125 registers and a few longer, starts near 0, near
// 65536-count and random, addresses around both window edges and their wrap images
func streamRegWin(seed uint64, thorough bool) {
	r := newRng(seed)
	rot := &regRotor{r: r}
	near, nrandom, per := 2, 1, 2
	if thorough {
		near, nrandom, per = 5, 4, 8
	}
	var counts []int
	for c := 1; c <= 125; c++ {
		counts = append(counts, c)
	}
	counts = append(counts, 126, 127, 128, 129, 200, 255, 256, 257, 300)
	if thorough {
		counts = append(counts, 1000, 2000)
	}
	for _, count := range counts {
		for _, start := range regStarts(r, count, near, nrandom) {
			vis := regPayload(r, count)
			s1, s2 := regJunk(r)
			dflt := rot.dflt()
			for _, addr := range regAddresses(r, int(start), count, 5) {
				for k := 0; k < per; k++ {
					regAccess3(vis, s1, s2, start, dflt, rot.next(addr))
				}
			}
		}
	}
}

// streamRegOrders: every accessor x every explicit byte order 0..15 (and 255) x every default order
// (-1 = untouched, 0..15, 255) on small windows at both ends of the address space
func streamRegOrders(seed uint64, thorough bool) {
	r := newRng(seed)
	orders := []int{0, 1, 2, 3, 4, 5, 6, 7, 8, 9, 10, 11, 12, 13, 14, 15, 255}
	dflts := append([]int{-1}, orders...)
	wins := [][2]int{{1, 0}, {2, 0}, {4, 65532}, {5, 65531}, {3, 65533}, {8, 1000}}
	if thorough {
		wins = append(wins, [2]int{1, 65535}, [2]int{2, 65534}, [2]int{4, 0}, [2]int{9, 32764}, [2]int{125, 65411})
	}
	for _, w := range wins {
		count, start := w[0], w[1]
		vis := regPayload(r, count)
		s1, s2 := regJunk(r)
		addrs := regDedupe([]int{start - 1, start, start + 1, start + count - 4, start + count - 2, start + count - 1, start + count})
		for _, addr := range addrs {
			for _, dflt := range dflts {
				for code := 1; code <= 23; code++ {
					switch {
					case code == 1:
						for _, bit := range []int{0, 7, 8, 15, 16} {
							regAccess3(vis, s1, s2, uint16(start), dflt, regCall{1, addr, bit, 0})
						}
					case code <= 4:
						regAccess3(vis, s1, s2, uint16(start), dflt, regCall{code, addr, 0, 0})
						regAccess3(vis, s1, s2, uint16(start), dflt, regCall{code, addr, 1, 0})
					case code == 19:
						regAccess3(vis, s1, s2, uint16(start), dflt, regCall{19, addr, 1 + r.intn(2*count+1), 0})
					case code == 20:
						for _, bo := range orders {
							regAccess3(vis, s1, s2, uint16(start), dflt, regCall{20, addr, 1 + r.intn(2*count+1), bo})
						}
					case code == 8 || code == 10 || code == 12 || code == 14 || code == 16 || code == 18 || code == 22 || code == 23:
						for _, bo := range orders {
							regAccess3(vis, s1, s2, uint16(start), dflt, regCall{code, addr, bo, 0})
						}
					default:
						regAccess3(vis, s1, s2, uint16(start), dflt, regCall{code, addr, 0, 0})
					}
				}
			}
		}
	}
}

// streamRegStr: String / StringWithByteOrder with every length 0..255 placed so that the string ends
// before, exactly at and behind the window end; payloads with NULs and bytes >= 0x80
func streamRegStr(seed uint64, thorough bool) {
	r := newRng(seed)
	rot := &regRotor{r: r}
	wins := [][2]int{{1, 0}, {2, 65534}, {3, 7}, {64, 65472}, {125, 0}, {127, 65409}, {128, 100}, {130, 65406}}
	if thorough {
		wins = append(wins, [2]int{1, 65535}, [2]int{2, 0}, [2]int{63, 65473}, [2]int{126, 32700}, [2]int{129, 0}, [2]int{200, 65336})
	}
	for _, w := range wins {
		count, start := w[0], w[1]
		for length := 0; length <= 255; length++ {
			vis := regPayload(r, count)
			s1, s2 := regJunk(r)
			nregs := (length + 1) / 2
			end := start + count
			addrs := regDedupe([]int{start, end - nregs, end - nregs - 1, end - nregs + 1, start - 1, end, end - 1,
				start + 32768, end - nregs - 32768, end - nregs + 32768})
			for _, addr := range addrs {
				dflt := rot.dflt()
				regAccess3(vis, s1, s2, uint16(start), dflt, regCall{19, addr, length, 0})
				regAccess3(vis, s1, s2, uint16(start), dflt, regCall{20, addr, length, rot.bo()})
			}
		}
	}
}

// streamRegSeq: C13 -- random sequences of 1..30 calls on ONE Registers object; every result is
// compared with the same call on a fresh copy of the payload; the buffer is compared at the end
// one random call sequence on one window (shared by the sequential and the concurrent stream)
func genRegSeqCase(r *rng, rot *regRotor) ([]byte, []byte, int, int, []regCall) {
	count := 1 + r.intn(12)
	if r.intn(6) == 0 {
		count = 1 + r.intn(125)
	}
	start := 0
	switch r.intn(4) {
	case 0:
		start = r.intn(3)
	case 1:
		start = 65536 - count - r.intn(3)
	default:
		start = r.intn(65536 - count + 1)
	}
	vis := regPayload(r, count)
	spare, _ := regJunk(r)
	if r.intn(3) == 0 {
		spare = nil
	}
	dflt := rot.dflt()
	ncalls := 1 + r.intn(30)
	calls := make([]regCall, ncalls)
	for k := range calls {
		addr := start + r.intn(count) // mostly inside: reads that overlap and repeat
		switch r.intn(10) {
		case 0:
			addr = start - 1 - r.intn(3)
		case 1:
			addr = start + count - 1 + r.intn(4)
		}
		if addr < 0 {
			addr = 0
		}
		if addr > 65535 {
			addr = 65535
		}
		c := rot.next(uint16(addr))
		if (c.code == 19 || c.code == 20) && r.intn(4) != 0 {
			// strings that fit, so that the byte swapping path is taken
			room := 2 * (start + count - addr)
			if room > 0 {
				c.p1 = 1 + r.intn(room)
				if c.p1 > 255 {
					c.p1 = 255
				}
			}
			if c.code == 20 && r.bool() {
				c.p2 = 1 + 2*r.intn(8) // some order with BigEndian set
			}
		}
		if k > 0 && r.intn(5) == 0 {
			c = calls[r.intn(k)] // repeat an earlier call
		}
		if k > 0 && calls[k-1].code == 24 && r.intn(3) != 0 {
			c = regOrderSensitive(r, uint16(start+r.intn(count))) // a read that shows the order in force
		}
		if r.intn(8) == 0 {
			c = regOrderOp(r) // re-configure the object in the middle of the sequence
		}
		calls[k] = c
	}
	return vis, spare, start, dflt, calls
}

// regOrderOp: the sequence element WithByteOrder(bo): 0 ("no flags", NOT "leave as it is") often,
// every flag combination 0..15, and values with the unused high bits set
func regOrderOp(r *rng) regCall {
	bo := 0
	switch r.intn(6) {
	case 0, 1:
		bo = 0
	case 2, 3, 4:
		bo = r.intn(16)
	default:
		bo = 16 + r.intn(240)
	}
	return regCall{24, 0, bo, 0}
}

// regOrderSensitive: a read whose value depends on the object's default order: 16/32/64-bit numbers
// and floats without explicit order or with the explicit order 0, strings
func regOrderSensitive(r *rng, addr uint16) regCall {
	switch r.intn(4) {
	case 0:
		return regCall{r.pick([]int{5, 6, 7, 9, 15}), addr, 0, 0}
	case 1:
		return regCall{r.pick([]int{11, 13, 17, 7}), addr, 0, 0}
	case 2:
		return regCall{r.pick([]int{8, 10, 12, 14, 16, 18}), addr, 0, 0}
	default:
		return regCall{r.pick([]int{19, 20}), addr, 1 + r.intn(8), 0}
	}
}

func streamRegSeq(seed uint64, thorough bool) {
	r := newRng(seed)
	rot := &regRotor{r: r}
	n := 8000
	if thorough {
		n = 80000
	}
	for i := 0; i < n; i++ {
		vis, spare, start, dflt, calls := genRegSeqCase(r, rot)
		emit("reg_seq", regSeqArgs(vis, spare, start, dflt, calls), regSeqRun(vis, spare, uint16(start), dflt, calls))
	}
}

// streamRegPar: the same kind of call sequences, but 16 of them at a time run concurrently in
// goroutines, each on its own Registers object: decoding must not share hidden state between
// objects (a pooled scratch buffer, a package-level cache).  Outcomes are emitted in generation
// order, so the comparison with the model is unchanged.
func streamRegPar(seed uint64, thorough bool) {
	r := newRng(seed + 77)
	rot := &regRotor{r: r}
	n := 4000
	if thorough {
		n = 40000
	}
	const width = 16
	for i := 0; i < n; i += width {
		type cs struct {
			args V
			run  func() V
			out  V
		}
		batch := make([]*cs, width)
		for k := range batch {
			vis, spare, start, dflt, calls := genRegSeqCase(r, rot)
			// favour the word-reordering paths: a low-word-first default order half of the time
			if k%2 == 0 {
				dflt = []int{5, 6}[k/2%2]
			}
			v, sp, st, df, cl := vis, spare, start, dflt, calls
			batch[k] = &cs{args: regSeqArgs(v, sp, st, df, cl), run: func() V { return regSeqRun(v, sp, uint16(st), df, cl) }}
		}
		var wg sync.WaitGroup
		gate := make(chan struct{})
		for _, c := range batch {
			wg.Add(1)
			go func(c *cs) {
				defer wg.Done()
				<-gate
				for rep := 0; rep < 3; rep++ { // repeat: more overlap between the goroutines
					c.out = guard(c.run)
				}
			}(c)
		}
		close(gate)
		wg.Wait()
		for _, c := range batch {
			emit("reg_seq", c.args, c.out)
		}
	}
}

func regSeqArgs(vis, spare []byte, start, dflt int, calls []regCall) V {
	cl := make([]V, len(calls))
	for i, c := range calls {
		cl[i] = c.val()
	}
	return L(B(vis), B(spare), I(start), I(dflt), L(cl...))
}

func regSeqRun(vis, spare []byte, start uint16, dflt int, calls []regCall) V {
	r, buf, refused := regMake(vis, spare, start, dflt, 0, 0)
	if refused != nil {
		return L(refused)
	}
	shared := make([]V, len(calls))
	// slices handed out by Register / DoubleRegister / QuadRegister are kept by the caller and looked
	// at again after the rest of the sequence: a later read (or re-configuration) on the same object
	// must not change a value that was already returned
	type kept struct {
		i    int
		live []byte
		was  []byte
	}
	var keep []kept
	for i, c := range calls {
		if c.code >= 21 && c.code <= 23 {
			var live []byte
			shared[i], live = regDoKeep(r, c)
			if live != nil {
				keep = append(keep, kept{i, live, append([]byte(nil), live...)})
			}
			continue
		}
		shared[i] = regDo(r, c)
	}
	for _, k := range keep {
		if !bytes.Equal(k.live, k.was) {
			shared[k.i] = vErr(I(99), B(k.was), B(k.live)) // returned slice changed afterwards
		}
	}
	after := B(buf)
	fresh := regFresh(vis, spare, start, dflt, calls)
	return L(L(shared...), L(fresh...), after)
}

// regDoKeep: the three slice-returning accessors, with the returned slice itself (not a copy)
func regDoKeep(r *packet.Registers, c regCall) (V, []byte) {
	var live []byte
	out := guard(func() V {
		bo := packet.ByteOrder(uint8(c.p1))
		var v []byte
		var err error
		switch c.code {
		case 21:
			v, err = r.Register(c.addr)
		case 22:
			v, err = r.DoubleRegister(c.addr, bo)
		default:
			v, err = r.QuadRegister(c.addr, bo)
		}
		if err != nil {
			return regErr(v == nil)
		}
		live = v
		return vOk(B(v))
	})
	return out, live
}

// regFresh: every element of the sequence on a fresh private copy of the payload: a new Registers
// object as constructed (dflt), WithByteOrder(the last order a WithByteOrder element of the sequence
// set before this element, if any), then the element itself.  What a read returns must not depend
// on anything else that happened on the object before.
func regFresh(vis, spare []byte, start uint16, dflt int, calls []regCall) []V {
	fresh := make([]V, len(calls))
	cur := -1
	for i, c := range calls {
		f, _, ref := regMake(vis, spare, start, dflt, 0, 0)
		if ref != nil {
			fresh[i] = ref
			continue
		}
		if cur >= 0 {
			f.WithByteOrder(packet.ByteOrder(uint8(cur)))
		}
		fresh[i] = regDo(f, c)
		if c.code == 24 {
			cur = c.p1
		}
	}
	return fresh
}

func regRender(vs []V) string {
	var b strings.Builder
	L(vs...).put(&b)
	return b.String()
}

// streamRegShare: C13 for concurrent consumers of ONE response.  One register response value (its
// Data = one backing array, with spare capacity) is decoded by 4..8 goroutines at the same time,
// each through its OWN Registers object obtained from AsRegisters (the three response types in
// turn), each running its own call sequence: long strings under byte orders with BigEndian set (the
// path that rearranges bytes), interleaved with plain reads of the same registers.  Reading is
// free of side effects, so every goroutine must get what its calls return on a fresh private copy,
// and the shared buffer must be unchanged afterwards.  Each sequence is repeated (more overlap); the
// first repetition whose results deviate from the fresh ones is the one reported, otherwise the
// last.  Emitted as reg_seq cases, one per goroutine: [results concurrent; results fresh; buffer
// after all goroutines finished].  Under -race an accessor that writes to the payload, even if it
// restores it, is reported as a data race as well.
func streamRegShare(seed uint64, thorough bool) {
	r := newRng(seed + 131)
	rot := &regRotor{r: r}
	groups, reps := 160, 25
	if thorough {
		groups, reps = 1600, 40
	}
	for g := 0; g < groups; g++ {
		count := 4 + r.intn(28)
		if r.intn(4) == 0 {
			count = 60 + r.intn(66)
		}
		start := r.intn(65536 - count + 1)
		switch r.intn(4) {
		case 0:
			start = r.intn(3)
		case 1:
			start = 65536 - count - r.intn(3)
		}
		// text without NULs (long strings), both bytes of a register different
		vis := make([]byte, 2*count)
		for i := range vis {
			vis[i] = byte(0x21 + r.intn(0x5e))
			if i%2 == 1 && vis[i] == vis[i-1] {
				vis[i] ^= 1
			}
			if r.intn(40) == 0 {
				vis[i] = byte(0x80 + r.intn(0x80))
			}
		}
		spare, _ := regJunk(r)
		if r.intn(3) == 0 {
			spare = nil
		}
		data := regWithCap(vis, spare)
		whole := data[:cap(data)]
		k := 4 + r.intn(5)
		type consumer struct {
			dflt  int
			calls []regCall
			route int
			fresh []V
			out   []V
		}
		cons := make([]*consumer, k)
		for j := range cons {
			c := &consumer{dflt: r.pick([]int{-1, -1, 1, 9, 5, 3, 13, 7, r.intn(16)})}
			n := 4 + r.intn(27)
			c.calls = make([]regCall, n)
			for i := range c.calls {
				addr := start + r.intn(count)
				room := 2 * (start + count - addr)
				if room > 255 {
					room = 255
				}
				switch sel := r.intn(20); {
				case sel < 7: // String: the default order decides
					c.calls[i] = regCall{19, uint16(addr), room - r.intn(1+room/4), 0}
				case sel < 12: // StringWithByteOrder with BigEndian set (or default)
					c.calls[i] = regCall{20, uint16(addr), room - r.intn(1+room/4), r.pick([]int{0, 1, 9, 5, 3, 11, 13, 15})}
				case sel < 15:
					c.calls[i] = regCall{r.pick([]int{5, 6, 21}), uint16(addr), 0, 0}
				case sel < 17:
					c.calls[i] = regCall{r.pick([]int{7, 15, 22, 11}), uint16(addr), r.pick([]int{0, 4, 5}), 0}
				case sel < 18:
					c.calls[i] = regCall{r.pick([]int{1, 2, 3}), uint16(addr), r.intn(2) * (1 + r.intn(15)), 0}
				default:
					c.calls[i] = rot.next(uint16(addr))
				}
				if i > 0 && c.calls[i-1].code == 24 && r.intn(2) == 0 {
					c.calls[i] = regOrderSensitive(r, uint16(addr))
				}
				if r.intn(12) == 0 {
					c.calls[i] = regOrderOp(r) // each consumer re-configures its OWN object
				}
			}
			c.fresh = regFresh(vis, spare, uint16(start), c.dflt, c.calls)
			c.route = 1 + j%3
			cons[j] = c
		}
		var wg sync.WaitGroup
		gate := make(chan struct{})
		for _, c := range cons {
			wg.Add(1)
			go func(c *consumer) {
				defer wg.Done()
				want := regRender(c.fresh)
				<-gate
				for rep := 0; rep < reps; rep++ {
					// its own Registers object over the SHARED backing array, through AsRegisters
					var regs *packet.Registers
					if ref := regOver(data, uint16(start), c.dflt, c.route, 0, &regs); ref != nil {
						panic("registers.go: regshare: valid payload refused")
					}
					res := make([]V, len(c.calls))
					for i, cl := range c.calls {
						res[i] = regDo(regs, cl)
					}
					c.out = res
					if regRender(res) != want {
						break
					}
				}
			}(c)
		}
		close(gate)
		wg.Wait()
		after := B(whole)
		for _, c := range cons {
			emit("reg_seq", regSeqArgs(vis, spare, start, c.dflt, c.calls), L(L(c.out...), L(c.fresh...), after))
		}
	}
}
