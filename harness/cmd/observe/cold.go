package main

// Stream "cold": what the library does FIRST in a process.  Lazily initialised package state (a
// lookup table behind sync.Once, a memo, a pool) is invisible to every other stream, because by the
// time a case runs thousands of calls have warmed it up.  Here the observe binary re-executes itself
// ("coldchild") so that the very first library calls of a fresh process are a chosen entry point -- a
// CRC verifier on a frame with a wrong trailer, the exception recogniser, CRC16 itself, RTU encoders --
// alone or from 16 goroutines released at the same instant.  The children print ordinary case lines
// (parse1 / crc16 / constructor entries), which the parent relays, so they are recomputed by the model
// and judged like any other case.

import (
	"bytes"
	"context"
	"flag"
	"fmt"
	"os"
	"os/exec"
	"strconv"
	"strings"
	"sync"
	"time"

	"github.com/aldas/go-modbus-client/packet"
)

var parseMu sync.Mutex

var coldKind = flag.Int("coldkind", 0, "coldchild: which first action")

func init() {
	streams["cold"] = streamCold
	streams["coldchild"] = streamColdChild
}

const coldKinds = 8

func streamCold(seed uint64, thorough bool) {
	exe, err := os.Executable()
	if err != nil {
		emit("crc16", L(B(nil)), L(I(98)))
		return
	}
	reps := 40
	if thorough {
		reps = 300
	}
	for rep := 0; rep < reps; rep++ {
		for kind := 0; kind < coldKinds; kind++ {
			if kind < 4 && rep >= 3 { // the sequential kinds are deterministic up to the seed
				continue
			}
			ctx, cancel := context.WithTimeout(context.Background(), time.Minute)
			cmd := exec.CommandContext(ctx, exe, "-seed", strconv.FormatUint(seed*1000+uint64(rep), 10), "-coldkind", strconv.Itoa(kind), "coldchild")
			var so, se bytes.Buffer
			cmd.Stdout, cmd.Stderr = &so, &se
			runErr := cmd.Run()
			cancel()
			text := so.String()
			if k := strings.LastIndexByte(text, '\n'); k >= 0 {
				for _, line := range strings.Split(text[:k], "\n") {
					out.WriteString(line)
					out.WriteByte('\n')
					emitted++
				}
			}
			if runErr != nil { // a fresh process must not die in its first library calls
				fmt.Fprintf(os.Stderr, "observe: cold child kind %d died: %v\n%s\n", kind, runErr, se.String())
				emit("crc16", L(B([]byte{byte(kind)})), vPanic())
			}
		}
	}
}

// coldFrames: literal RTU frames (unit, function, body) of each shape, trailer from the harness's own
// bit-by-bit CRC; [bad] is the same frame with a wrong trailer
func coldFrames(r *rng) (resp, req, exc [][]byte) {
	mk := func(body []byte) []byte { return append(append([]byte(nil), body...), crcTrailer(body)...) }
	u := r.u8()
	resp = [][]byte{
		mk([]byte{u, 3, 2, r.u8(), r.u8()}),
		mk([]byte{u, 1, 1, r.u8()}),
		mk([]byte{u, 4, 4, r.u8(), r.u8(), r.u8(), r.u8()}),
		mk([]byte{u, 6, 0, 10, r.u8(), r.u8()}),
		mk([]byte{u, 16, 0, 10, 0, 2}),
	}
	req = [][]byte{
		mk([]byte{u, 3, 0, 10, 0, 2}),
		mk([]byte{u, 5, 0, 10, 0xff, 0}),
		mk([]byte{u, 6, 0, 10, r.u8(), r.u8()}),
		mk([]byte{u, 16, 0, 10, 0, 1, 2, r.u8(), r.u8()}),
		mk([]byte{u, 17}),
	}
	for _, fc := range []byte{1, 3, 5, 16, 23} {
		exc = append(exc, mk([]byte{u, fc | 0x80, byte(1 + r.intn(4))}))
	}
	return
}

func coldBad(r *rng, f []byte, how int) []byte {
	b := append([]byte(nil), f...)
	n := len(b)
	switch how {
	case 0:
		b[n-2], b[n-1] = 0, 0
	case 1:
		b[n-1] ^= byte(1 << r.intn(8))
	case 2:
		b[n-2], b[n-1] = b[n-1], b[n-2]
		if b[n-2] == b[n-1] {
			b[n-1] ^= 1
		}
	default:
		b[n-2], b[n-1] = r.u8(), r.u8()
		t := crcTrailer(b[:n-2])
		if b[n-2] == t[0] && b[n-1] == t[1] {
			b[n-1] ^= 0x80
		}
	}
	return b
}

func coldParse(w int, b []byte) {
	emit("parse1", L(I(w), B(b), B(nil)), parseAny(w, withCap(b, nil)))
}

func streamColdChild(seed uint64, thorough bool) {
	r := newRng(seed)
	resp, req, exc := coldFrames(r)
	verifyAll := func() {
		for how := 0; how < 4; how++ {
			for _, f := range resp {
				coldParse(302, coldBad(r, f, how))
			}
			for _, f := range req {
				coldParse(202, coldBad(r, f, how))
			}
			for _, f := range exc {
				coldParse(405, coldBad(r, f, how))
				coldParse(302, coldBad(r, f, how))
			}
		}
		for _, f := range resp {
			coldParse(302, f)
		}
		for _, f := range req {
			coldParse(202, f)
		}
		for _, f := range exc {
			coldParse(405, f)
		}
	}
	encoders := []ctor{cRead(3, 1, r.u8(), r.edge16(), uint16(1+r.intn(125))), cWCoil(1, r.u8(), r.edge16(), true),
		cWReg(1, r.u8(), r.edge16(), r.bytes(2)), cWRegs(1, r.u8(), r.edge16(), r.bytes(2*(1+r.intn(20)))),
		cSrvID(1, r.u8()), cRead(1, 1, r.u8(), r.edge16(), uint16(1+r.intn(2000))), cRW(1, r.u8(), r.edge16(), 3, r.edge16(), r.bytes(4)),
		cWCoils(1, r.u8(), r.edge16(), coilPattern(r, 1+r.intn(100), 3))}
	encode := func(c ctor) (string, V, V) {
		var args, o V
		o = guard(func() V {
			req, err := c.mk()
			if err != nil || req == nil {
				return L(I(98))
			}
			tid, p := projReq(req)
			args = L(c.fullArgs(tid)...)
			return vOk(p, B(req.Bytes()), I(req.ExpectedResponseLength()))
		})
		if args == nil {
			args = L(c.fullArgs(0)...)
		}
		return c.name, args, o
	}
	switch *coldKind {
	case 0: // a response verifier first
		verifyAll()
	case 1: // the exception recogniser first, trailer 00 00 first of all
		for how := 0; how < 4; how++ {
			for _, f := range exc {
				coldParse(405, coldBad(r, f, how))
			}
		}
		verifyAll()
	case 2: // a request verifier first
		for _, f := range req {
			coldParse(202, coldBad(r, f, 3))
		}
		verifyAll()
	case 3: // exception encoders first, then verifiers
		for _, f := range exc {
			e := packet.ErrorResponseRTU{UnitID: f[0], Function: f[1] &^ 0x80, Code: f[2]}
			b := guard(func() V { return B(e.Bytes()) })
			emit("crc16", L(B(f[:3])), guard(func() V {
				if bb, ok := b.(vBytes); ok && len(bb) == 5 {
					return U(uint64(bb[3]) | uint64(bb[4])<<8)
				}
				return L(I(98))
			}))
		}
		verifyAll()
	default: // 4..7: sixteen goroutines released at the same instant do the first calls
		const n = 16
		type line struct {
			entry     string
			args, out V
		}
		res := make([][]line, n)
		var start, done sync.WaitGroup
		start.Add(1)
		inputs := make([][]byte, n)
		for g := 0; g < n; g++ {
			inputs[g] = r.bytes(1 + r.intn(40))
		}
		for g := 0; g < n; g++ {
			g := g
			done.Add(1)
			go func() {
				defer done.Done()
				start.Wait()
				switch {
				case *coldKind == 4 || (*coldKind == 6 && g%2 == 0): // RTU encoders
					for k := 0; k < 3; k++ {
						e, a, o := encode(encoders[(g+k)%len(encoders)])
						res[g] = append(res[g], line{e, a, o})
					}
				case *coldKind == 5 || (*coldKind == 7 && g%2 == 0): // CRC16 itself
					b := inputs[g]
					res[g] = append(res[g], line{"crc16", L(B(b)), guard(func() V { return U(uint64(packet.CRC16(b))) })})
				default: // verifiers (kinds 6, 7: mixed with the other half)
					// parseAny keeps harness-side scratch state: one verifier at a time, but
					// concurrently with the encoder / CRC16 goroutines
					f := coldBad(r2(seed, g), resp[g%len(resp)], g%4)
					f2 := append([]byte(nil), req[g%len(req)]...)
					parseMu.Lock()
					o1 := parseAny(302, withCap(f, nil))
					o2 := parseAny(202, withCap(f2, nil))
					parseMu.Unlock()
					res[g] = append(res[g], line{"parse1", L(I(302), B(f), B(nil)), o1}, line{"parse1", L(I(202), B(f2), B(nil)), o2})
				}
			}()
		}
		time.Sleep(2 * time.Millisecond) // let every goroutine reach the barrier
		start.Done()
		done.Wait()
		for g := 0; g < n; g++ {
			for _, l := range res[g] {
				emit(l.entry, l.args, l.out)
			}
		}
	}
}

// r2: a private generator per goroutine (the shared one is not safe for concurrent use)
func r2(seed uint64, g int) *rng { return newRng(seed*131 + uint64(g) + 7) }
