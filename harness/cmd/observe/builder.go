package main

// Builder layer (properties C06, C05): field-list generators and the "split" stream.
//
// split: a list of field definitions and one of the 8 targets go through the exported API
// (NewRequestBuilder / AddAll or the fluent Add(b.Uint16(..)...) / Read<Kind><Framing>()); the
// outcome is error | the requests sorted by (server, unit, start), each with its descriptor, the
// packet's own fields, the encoded bytes and the positions of its member fields in the input list.

import (
	"sort"
	"strconv"

	modbus "github.com/aldas/go-modbus-client"
	"github.com/aldas/go-modbus-client/packet"
)

func init() {
	streams["split"] = streamSplit
}

var builderServers = []string{"a_1", "a", "1_true", "a_1_false", "tcp://10.0.0.7:502", "a_1_1", "_", "false", "a_"}
var builderUnits = []uint8{0, 1, 2, 11, 255, 10, 1}
var builderOrders = []uint8{0, 1, 2, 4, 8, 5, 9, 6, 10, 3, 12, 15}
var stringEdgeLens = []int{1, 2, 3, 4, 124, 125, 248, 249, 250}
var stringLongLens = []int{251, 252, 253, 254, 255}

type fieldScenario struct {
	servers []string
	units   []uint8
}

// serverFamilies: addresses that differ only a little -- by leading characters out of "tcp:/", by a
// "tcp://" prefix, by case, by leading / trailing spaces, by one character anywhere.  The group key
// must be the exact string.
var serverFamilies = [][]string{
	{"tc1:502", "pc1:502", "c1:502", "1:502", "ttc1:502"},
	{"tcp://cpu-a:5020", "tcp://pu-a:5020", "cpu-a:5020", "u-a:5020", "tcp://tcp://cpu-a:5020"},
	{"tcp://a", "tcp:/a", "a", "p://a", "/a", ":a", "tcp://"},
	{"host:502", "Host:502", "HOST:502", "hOst:502"},
	{"host:502", " host:502", "host:502 ", " host:502 ", "host :502"},
	{"plc-1:502", "plc-2:502", "plc-1:503", "qlc-1:502", "plc-1:5020", "plc_1:502"},
	{"udp://x:1", "tcp://x:1", "x:1", "cp://x:1", "//x:1"},
	{"p", "c", "t", "tp", "pt", ":", "/"},
}

func genScenario(r *rng) fieldScenario {
	var sc fieldScenario
	ns := 1 + r.intn(3)
	if r.intn(3) == 0 { // near-identical server addresses, few unit ids: the keys must stay apart
		fam := serverFamilies[r.intn(len(serverFamilies))]
		ns = 2 + r.intn(2)
		start := r.intn(len(fam))
		for i := 0; i < ns; i++ {
			sc.servers = append(sc.servers, fam[(start+i*(1+r.intn(2)))%len(fam)])
		}
		sc.units = []uint8{builderUnits[r.intn(len(builderUnits))]}
		if r.intn(3) == 0 {
			sc.units = append(sc.units, builderUnits[r.intn(len(builderUnits))])
		}
		return sc
	}
	perm := r.intn(len(builderServers))
	for i := 0; i < ns; i++ {
		sc.servers = append(sc.servers, builderServers[(perm+i*(1+r.intn(3)))%len(builderServers)])
	}
	nu := 1 + r.intn(3)
	for i := 0; i < nu; i++ {
		sc.units = append(sc.units, builderUnits[r.intn(len(builderUnits))])
	}
	return sc
}

// genFieldType: 1..14; coilShare out of 100 is the probability of a coil field
func genFieldType(r *rng, coilShare int) modbus.FieldType {
	if r.intn(100) < coilShare {
		return modbus.FieldTypeCoil
	}
	return modbus.FieldType(1 + r.intn(13))
}

func genStringLen(r *rng, allowLong bool) uint8 {
	switch x := r.intn(100); {
	case x < 70:
		return uint8(1 + r.intn(20))
	case x < 85:
		return uint8(stringEdgeLens[r.intn(len(stringEdgeLens))])
	case x < 95 || !allowLong:
		return uint8(1 + r.intn(250))
	default:
		return uint8(stringLongLens[r.intn(len(stringLongLens))])
	}
}

func fieldSpan(f modbus.Field) int {
	switch f.Type {
	case modbus.FieldTypeUint32, modbus.FieldTypeInt32, modbus.FieldTypeFloat32:
		return 2
	case modbus.FieldTypeUint64, modbus.FieldTypeInt64, modbus.FieldTypeFloat64:
		return 4
	case modbus.FieldTypeString:
		return (int(f.Length) + 1) / 2
	}
	return 1
}

// genFields: n valid field definitions over the scenario's servers and units.  Addresses: dense
// clusters, steps of limit-1/limit/limit+1 (also measured from the end of the previous field),
// duplicates, overlaps, both ends of the address space, random.
func genFields(r *rng, sc fieldScenario, n int, coilShare int, allowLong bool) []modbus.Field {
	fields := make([]modbus.Field, 0, n)
	base := r.edge16()
	switch r.intn(5) {
	case 0:
		base = uint16(r.intn(4))
	case 1:
		base = uint16(65535 - r.intn(300))
	case 2:
		base = uint16(65536 - 2000 - 3 + r.intn(6))
	}
	prev := base
	prevSpan := 1
	for i := 0; i < n; i++ {
		f := modbus.Field{
			Name:          strconv.Itoa(i),
			ServerAddress: sc.servers[r.intn(len(sc.servers))],
			UnitID:        sc.units[r.intn(len(sc.units))],
			Type:          genFieldType(r, coilShare),
			Bit:           uint8(r.intn(16)),
			FromHighByte:  r.bool(),
			ByteOrder:     packet.ByteOrder(builderOrders[r.intn(len(builderOrders))]),
		}
		if r.intn(50) == 0 {
			f.ByteOrder = packet.ByteOrder(r.u8())
		}
		if f.Type == modbus.FieldTypeString {
			f.Length = genStringLen(r, allowLong)
		} else if r.intn(8) == 0 {
			f.Length = r.u8()
		}
		limit := 125
		if f.Type == modbus.FieldTypeCoil {
			limit = 2000
		}
		span := fieldSpan(f)
		var a uint16
		switch r.intn(12) {
		case 0, 1, 2, 3:
			a = base + uint16(r.intn(30))
		case 4:
			a = prev + uint16(limit-1+r.intn(3))
		case 5:
			a = prev + uint16(limit-span-1+r.intn(3))
		case 6:
			a = prev
		case 7:
			a = prev + uint16(prevSpan) - uint16(r.intn(3))
		case 8:
			a = r.u16()
		case 9:
			a = uint16(65535 - r.intn(6))
		case 10:
			a = uint16(r.intn(6))
		case 11:
			a = base + uint16(r.intn(2*limit))
		}
		f.Address = a
		prev, prevSpan = a, span
		fields = append(fields, f)
	}
	return fields
}

// mutateInvalid makes one definition invalid (or at least unusual)
func mutateInvalid(r *rng, fields []modbus.Field) {
	if len(fields) == 0 {
		return
	}
	f := &fields[r.intn(len(fields))]
	switch r.intn(8) {
	case 0:
		f.Type = 0
	case 1:
		f.Type = 15
	case 2:
		f.Type = modbus.FieldType(16 + r.intn(240))
	case 3:
		f.Bit = 16
	case 4:
		f.Bit = uint8(16 + r.intn(240))
	case 5:
		f.ServerAddress = ""
	case 6:
		f.Type = modbus.FieldTypeString
		f.Length = 0
	case 7:
		f.Type = modbus.FieldTypeString
		f.Length = uint8(stringLongLens[r.intn(len(stringLongLens))])
	}
}

func fieldVal(f modbus.Field) V {
	return L(S(f.ServerAddress), I(int(f.UnitID)), I(int(f.Address)), I(int(f.Type)), I(int(f.Bit)),
		Bool(f.FromHighByte), I(int(f.Length)), I(int(f.ByteOrder)))
}

func fieldVals(fields []modbus.Field) V {
	vs := make([]V, len(fields))
	for i, f := range fields {
		vs[i] = fieldVal(f)
	}
	return vList(vs)
}

// bfieldOf builds the field through the fluent API when the definition is one the fluent API can
// express; the builder's defaults supply server and unit when they agree
func bfieldOf(b *modbus.Builder, f modbus.Field, defServer string, defUnit uint8) *modbus.BField {
	var bf *modbus.BField
	plain := f.Bit == 0 && !f.FromHighByte && f.Length == 0
	switch {
	case f.Type == modbus.FieldTypeBit && !f.FromHighByte && f.Length == 0:
		bf = b.Bit(f.Address, f.Bit)
	case f.Type == modbus.FieldTypeByte && f.Bit == 0 && f.Length == 0:
		bf = b.Byte(f.Address, f.FromHighByte)
	case f.Type == modbus.FieldTypeUint8 && f.Bit == 0 && f.Length == 0:
		bf = b.Uint8(f.Address, f.FromHighByte)
	case f.Type == modbus.FieldTypeInt8 && f.Bit == 0 && f.Length == 0:
		bf = b.Int8(f.Address, f.FromHighByte)
	case f.Type == modbus.FieldTypeString && f.Bit == 0 && !f.FromHighByte:
		bf = b.String(f.Address, f.Length)
	case !plain:
		return nil
	case f.Type == modbus.FieldTypeUint16:
		bf = b.Uint16(f.Address)
	case f.Type == modbus.FieldTypeInt16:
		bf = b.Int16(f.Address)
	case f.Type == modbus.FieldTypeUint32:
		bf = b.Uint32(f.Address)
	case f.Type == modbus.FieldTypeInt32:
		bf = b.Int32(f.Address)
	case f.Type == modbus.FieldTypeUint64:
		bf = b.Uint64(f.Address)
	case f.Type == modbus.FieldTypeInt64:
		bf = b.Int64(f.Address)
	case f.Type == modbus.FieldTypeFloat32:
		bf = b.Float32(f.Address)
	case f.Type == modbus.FieldTypeFloat64:
		bf = b.Float64(f.Address)
	case f.Type == modbus.FieldTypeCoil:
		bf = b.Coil(f.Address)
	default:
		return nil
	}
	if f.ServerAddress != defServer {
		bf = bf.ServerAddress(f.ServerAddress)
	}
	if f.UnitID != defUnit {
		bf = bf.UnitID(f.UnitID)
	}
	return bf.ByteOrder(f.ByteOrder).Name(f.Name)
}

// callBuilder runs Builder.Read<Kind><Framing>() for target 0..7 (the order of the splitTo... constants)
func callBuilder(target int, fields []modbus.Field, fluent bool) ([]modbus.BuilderRequest, error) {
	defServer, defUnit := "", uint8(0)
	if len(fields) > 0 {
		defServer, defUnit = fields[0].ServerAddress, fields[0].UnitID
	}
	b := modbus.NewRequestBuilder(defServer, defUnit)
	if fluent {
		for _, f := range fields {
			if bf := bfieldOf(b, f, defServer, defUnit); bf != nil {
				b.Add(bf)
			} else {
				b.AddAll(modbus.Fields{f})
			}
		}
	} else {
		b.AddAll(fields)
	}
	switch target {
	case 0:
		return b.ReadCoilsTCP()
	case 1:
		return b.ReadCoilsRTU()
	case 2:
		return b.ReadDiscreteInputsTCP()
	case 3:
		return b.ReadDiscreteInputsRTU()
	case 4:
		return b.ReadHoldingRegistersTCP()
	case 5:
		return b.ReadHoldingRegistersRTU()
	case 6:
		return b.ReadInputRegistersTCP()
	default:
		return b.ReadInputRegistersRTU()
	}
}

func sortRequests(reqs []modbus.BuilderRequest) {
	sort.SliceStable(reqs, func(i, j int) bool {
		a, b := reqs[i], reqs[j]
		if a.ServerAddress != b.ServerAddress {
			return a.ServerAddress < b.ServerAddress
		}
		if a.UnitID != b.UnitID {
			return a.UnitID < b.UnitID
		}
		return a.StartAddress < b.StartAddress
	})
}

// fieldID: position of a request member in the input list (by its Name), -1 when the member is
// not identical to the definition of that name
func fieldID(fields []modbus.Field, f modbus.Field) int {
	id, err := strconv.Atoi(f.Name)
	if err != nil || id < 0 || id >= len(fields) || fields[id] != f {
		return -1
	}
	return id
}

func splitCase(target int, fields []modbus.Field, fluent bool) {
	var tids []V
	outcome := guard(func() V {
		reqs, err := callBuilder(target, fields, fluent)
		if err != nil {
			return vErr(Bool(reqs == nil))
		}
		sortRequests(reqs)
		descs := make([]V, 0, len(reqs))
		for _, q := range reqs {
			tid, pv := projReq(q.Request)
			tids = append(tids, I(tid))
			ids := make([]V, 0, len(q.Fields))
			for _, f := range q.Fields {
				ids = append(ids, I(fieldID(fields, f)))
			}
			descs = append(descs, L(S(q.ServerAddress), I(int(q.UnitID)), I(int(q.StartAddress)), I(tid), pv,
				B(q.Bytes()), vList(ids)))
		}
		return vOk(vList(descs))
	})
	emit("split", L(I(target), fieldVals(fields), vList(tids)), outcome)
}

func mkField(i int, server string, unit uint8, addr uint16, typ modbus.FieldType, length uint8) modbus.Field {
	return modbus.Field{Name: strconv.Itoa(i), ServerAddress: server, UnitID: unit, Address: addr, Type: typ, Length: length}
}

// splitCorpus: witnesses of the repaired defects and boundary constellations, all 8 targets
func splitCorpus() {
	for t := 0; t < 8; t += 3 {
		ty := modbus.FieldTypeUint16
		if t < 4 {
			ty = modbus.FieldTypeCoil
		}
		for _, fam := range serverFamilies {
			for i := range fam {
				for j := range fam {
					splitCase(t, []modbus.Field{mkField(0, fam[i], 1, 10, ty, 0), mkField(1, fam[j], 1, 11, ty, 0),
						mkField(2, fam[i], 1, 12, ty, 0)}, false)
				}
			}
		}
	}
	for t := 0; t < 8; t++ {
		single := modbus.FieldTypeUint16
		wide := modbus.FieldTypeUint64
		limit := 125
		if t < 4 {
			single, wide, limit = modbus.FieldTypeCoil, modbus.FieldTypeCoil, 2000
		}
		splitCase(t, nil, false)
		// D13: fields at 0 and 65535 must not share a request
		splitCase(t, []modbus.Field{mkField(0, "a", 1, 0, single, 0), mkField(1, "a", 1, 65535, single, 0)}, false)
		splitCase(t, []modbus.Field{mkField(0, "a", 1, 65535, single, 0), mkField(1, "a", 1, 0, single, 0)}, false)
		// a span that leaves the address space
		splitCase(t, []modbus.Field{mkField(0, "a", 1, 65535, wide, 0), mkField(1, "a", 1, 65533, modbus.FieldTypeUint32, 0)}, false)
		splitCase(t, []modbus.Field{mkField(0, "a", 1, 65534, modbus.FieldTypeString, 250)}, false)
		// exactly limit / limit+1 wide
		for d := -2; d <= 2; d++ {
			for _, base := range []int{0, 1, 1000, 65535 - limit - 1, 65535 - limit, 65536 - limit} {
				hi := base + limit - 1 + d
				if hi < 0 || hi > 65535 {
					continue
				}
				splitCase(t, []modbus.Field{mkField(0, "a", 1, uint16(base), single, 0), mkField(1, "a", 1, uint16(hi), single, 0)}, false)
				splitCase(t, []modbus.Field{mkField(0, "a", 1, uint16(hi), single, 0), mkField(1, "a", 1, uint16(base), wide, 0)}, true)
			}
		}
		// every string length, alone and behind another field
		for l := 0; l <= 255; l++ {
			splitCase(t, []modbus.Field{mkField(0, "a", 1, 10, modbus.FieldTypeString, uint8(l))}, l%2 == 0)
			splitCase(t, []modbus.Field{mkField(0, "a", 1, 10, single, 0), mkField(1, "a", 1, 12, modbus.FieldTypeString, uint8(l))}, false)
		}
		// every field type, valid and one beyond; every bit value around the limit
		for ty := 0; ty <= 16; ty++ {
			f := mkField(0, "a", 1, 7, modbus.FieldType(ty), 3)
			splitCase(t, []modbus.Field{f}, false)
			f.Bit = 15
			splitCase(t, []modbus.Field{f}, false)
			f.Bit = 16
			splitCase(t, []modbus.Field{f}, false)
			f.Bit = 0
			f.ServerAddress = ""
			splitCase(t, []modbus.Field{f}, false)
		}
		// same address, different widths; keys that would collide if the key were not injective
		splitCase(t, []modbus.Field{mkField(0, "a", 1, 5, single, 0), mkField(1, "a", 1, 5, wide, 0), mkField(2, "a", 1, 5, modbus.FieldTypeUint32, 0)}, false)
		splitCase(t, []modbus.Field{mkField(0, "a_1", 1, 5, single, 0), mkField(1, "a", 1, 6, single, 0), mkField(2, "a_1", 11, 7, single, 0),
			mkField(3, "a", 11, 8, single, 0), mkField(4, "a_1_1", 1, 9, single, 0)}, false)
	}
}

func streamSplit(seed uint64, thorough bool) {
	splitCorpus()
	r := newRng(seed ^ 0xB06)
	n := 30000
	if thorough {
		n = 300000
	}
	for i := 0; i < n; i++ {
		target := r.intn(8)
		sc := genScenario(r)
		var cnt int
		switch r.intn(6) {
		case 0:
			cnt = r.intn(4)
		case 1:
			cnt = 30 + r.intn(11)
		default:
			cnt = 1 + r.intn(24)
		}
		coilShare := 15
		if target < 4 {
			coilShare = 80
		}
		if r.intn(10) == 0 {
			coilShare = 50
		}
		fields := genFields(r, sc, cnt, coilShare, r.intn(4) == 0)
		if r.intn(8) == 0 {
			mutateInvalid(r, fields)
		}
		splitCase(target, fields, r.bool())
	}
}
