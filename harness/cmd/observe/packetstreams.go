package main

// Streams of the packet layer (C01, C02, C03 b/c, C09, C10, C11, C18).

import (
	"bytes"
	"encoding/binary"
	"reflect"

	"github.com/aldas/go-modbus-client/packet"
)

func init() {
	streams["ctors"] = streamCtors
	streams["rtreq"] = streamRtReq
	streams["reqmut"] = streamReqMut
	streams["parse3"] = streamParse3
	streams["resp"] = streamResp
	streams["respmut"] = streamRespMut
	streams["encrtu"] = streamEncRTU
	streams["crcgate"] = streamCrcGate
	streams["coils"] = streamCoils
	streams["classify"] = streamClassify
}

// ---------- constructor cases ----------

type ctor struct {
	name string
	fr   int // 0 TCP, 1 RTU
	args []V // without framing and transaction id
	mk   func() (packet.Request, error)
}

func cRead(fc, fr int, u uint8, start, qty uint16) ctor {
	return ctor{"new_read", fr, []V{I(fc), I(int(u)), I(int(start)), I(int(qty))}, func() (packet.Request, error) {
		switch fc*2 + fr {
		case 2:
			return nilIfErr(packet.NewReadCoilsRequestTCP(u, start, qty))
		case 3:
			return nilIfErr(packet.NewReadCoilsRequestRTU(u, start, qty))
		case 4:
			return nilIfErr(packet.NewReadDiscreteInputsRequestTCP(u, start, qty))
		case 5:
			return nilIfErr(packet.NewReadDiscreteInputsRequestRTU(u, start, qty))
		case 6:
			return nilIfErr(packet.NewReadHoldingRegistersRequestTCP(u, start, qty))
		case 7:
			return nilIfErr(packet.NewReadHoldingRegistersRequestRTU(u, start, qty))
		case 8:
			return nilIfErr(packet.NewReadInputRegistersRequestTCP(u, start, qty))
		case 9:
			return nilIfErr(packet.NewReadInputRegistersRequestRTU(u, start, qty))
		}
		panic("cRead")
	}}
}

// nilIfErr keeps the "value is nil" information of a typed nil pointer: a non-nil pointer
// returned together with an error is reported through errNonNil
var errNonNil = false

func nilIfErr[T packet.Request](r T, err error) (packet.Request, error) {
	if err != nil {
		errNonNil = !isNilValue(r)
		return nil, err
	}
	return r, nil
}

func cWCoil(fr int, u uint8, addr uint16, st bool) ctor {
	return ctor{"new_wcoil", fr, []V{I(int(u)), I(int(addr)), Bool(st)}, func() (packet.Request, error) {
		if fr == 0 {
			return nilIfErr(packet.NewWriteSingleCoilRequestTCP(u, addr, st))
		}
		return nilIfErr(packet.NewWriteSingleCoilRequestRTU(u, addr, st))
	}}
}
func cWReg(fr int, u uint8, addr uint16, data []byte) ctor {
	return ctor{"new_wreg", fr, []V{I(int(u)), I(int(addr)), B(data)}, func() (packet.Request, error) {
		if fr == 0 {
			return nilIfErr(packet.NewWriteSingleRegisterRequestTCP(u, addr, data))
		}
		return nilIfErr(packet.NewWriteSingleRegisterRequestRTU(u, addr, data))
	}}
}
func boolBytes(c []bool) []byte {
	b := make([]byte, len(c))
	for i, x := range c {
		if x {
			b[i] = 1
		}
	}
	return b
}
func cWCoils(fr int, u uint8, start uint16, coils []bool) ctor {
	return ctor{"new_wcoils", fr, []V{I(int(u)), I(int(start)), B(boolBytes(coils))}, func() (packet.Request, error) {
		if fr == 0 {
			return nilIfErr(packet.NewWriteMultipleCoilsRequestTCP(u, start, coils))
		}
		return nilIfErr(packet.NewWriteMultipleCoilsRequestRTU(u, start, coils))
	}}
}
func cWRegs(fr int, u uint8, start uint16, data []byte) ctor {
	return ctor{"new_wregs", fr, []V{I(int(u)), I(int(start)), B(data)}, func() (packet.Request, error) {
		if fr == 0 {
			return nilIfErr(packet.NewWriteMultipleRegistersRequestTCP(u, start, data))
		}
		return nilIfErr(packet.NewWriteMultipleRegistersRequestRTU(u, start, data))
	}}
}
func cSrvID(fr int, u uint8) ctor {
	return ctor{"new_srvid", fr, []V{I(int(u))}, func() (packet.Request, error) {
		if fr == 0 {
			return nilIfErr(packet.NewReadServerIDRequestTCP(u))
		}
		return nilIfErr(packet.NewReadServerIDRequestRTU(u))
	}}
}
func cRW(fr int, u uint8, rs, rq, ws uint16, data []byte) ctor {
	return ctor{"new_rw", fr, []V{I(int(u)), I(int(rs)), I(int(rq)), I(int(ws)), B(data)}, func() (packet.Request, error) {
		if fr == 0 {
			return nilIfErr(packet.NewReadWriteMultipleRegistersRequestTCP(u, rs, rq, ws, data))
		}
		return nilIfErr(packet.NewReadWriteMultipleRegistersRequestRTU(u, rs, rq, ws, data))
	}}
}

// fullArgs = [framing, args..., tid]
func (c ctor) fullArgs(tid int) []V {
	a := append([]V{I(c.fr)}, c.args...)
	return append(a, I(tid))
}

func emitCtor(c ctor) {
	var req packet.Request
	var err error
	o := guard(func() V {
		errNonNil = false
		req, err = c.mk()
		if err != nil {
			return vErr(append([]V{Bool(!errNonNil)}, projErrTail(err)...)...)
		}
		if c.fr == 0 && emitted%4 == 2 { // a caller may choose the transaction id, 0 included
			pokeTransactionID(req, []uint16{0, 0, 1, 0xFFFF, 0x0100, 0x8000}[(emitted/4)%6])
		}
		looked(req)
		_, p := projReq(req)
		if c.fr == 0 && emitted%3 == 1 {
			pokeProtocolID(req, uint16(1+emitted%65000))
		}
		raw := req.Bytes()
		if again := req.Bytes(); !bytes.Equal(raw, again) { // encoding is a function of the request
			return L(I(98), B(raw), B(again))
		}
		ob := B(raw)
		for i := range raw { // a frame handed to the caller is the caller's: later frames must not depend on it
			raw[i] ^= 0x5A
		}
		return vOk(p, ob, I(req.ExpectedResponseLength()))
	})
	tid := 0
	if err == nil && req != nil {
		tid, _ = projReq(req)
	}
	emit(c.name, L(c.fullArgs(tid)...), o)
}

// pokeProtocolID writes a non-zero value into the exported MBAPHeader.ProtocolID field of a TCP
// request (callers set TransactionID through the same exported header): the wire bytes must carry
// protocol id 0 regardless
func pokeTransactionID(req packet.Request, v uint16) {
	defer func() { _ = recover() }()
	rv := reflect.ValueOf(req)
	if rv.Kind() == reflect.Ptr {
		rv = rv.Elem()
	}
	h := rv.FieldByName("MBAPHeader")
	if h.IsValid() {
		f := h.FieldByName("TransactionID")
		if f.IsValid() && f.CanSet() {
			f.SetUint(uint64(v))
		}
	}
}

func pokeProtocolID(req packet.Request, v uint16) {
	defer func() { _ = recover() }()
	rv := reflect.ValueOf(req)
	if rv.Kind() == reflect.Ptr {
		rv = rv.Elem()
	}
	h := rv.FieldByName("MBAPHeader")
	if h.IsValid() {
		f := h.FieldByName("ProtocolID")
		if f.IsValid() && f.CanSet() {
			f.SetUint(uint64(v))
		}
	}
}

func coilPattern(r *rng, n int, kind int) []bool {
	c := make([]bool, n)
	switch kind {
	case 0: // all false
	case 1:
		for i := range c {
			c[i] = true
		}
	case 2: // single bit
		if n > 0 {
			c[r.intn(n)] = true
		}
	default:
		for i := range c {
			c[i] = r.bool()
		}
	}
	return c
}

// genCtors enumerates the constructor cases: exhaustive small axes plus random arguments
func genCtors(r *rng, thorough bool, f func(c ctor)) {
	// every quantity 0..65535 for each of the 8 read constructors
	for fc := 1; fc <= 4; fc++ {
		for fr := 0; fr < 2; fr++ {
			for q := 0; q < 65536; q++ {
				f(cRead(fc, fr, r.u8(), r.edge16(), uint16(q)))
			}
		}
	}
	for fr := 0; fr < 2; fr++ {
		for i := 0; i < 300; i++ {
			f(cWCoil(fr, r.u8(), r.edge16(), r.bool()))
			f(cWReg(fr, r.u8(), r.edge16(), r.bytes(r.intn(5))))
			f(cSrvID(fr, uint8(i)))
		}
		// every coil count 0..2100 with four patterns
		for n := 0; n <= 2100; n++ {
			if !thorough && n > 100 && n < 1941 && n%13 != 0 {
				continue
			}
			kinds := []int{3}
			if n%7 == 0 || n < 40 || (n > 1960 && n < 1975) {
				kinds = []int{0, 1, 2, 3}
			}
			for _, k := range kinds {
				f(cWCoils(fr, r.u8(), r.edge16(), coilPattern(r, n, k)))
			}
		}
		// every payload length 0..300 and the 2^17 wrap points
		for n := 0; n <= 300; n++ {
			f(cWRegs(fr, r.u8(), r.edge16(), r.bytes(n)))
			for _, rq := range []uint16{1, 124, 125, uint16(r.intn(130))} {
				f(cRW(fr, r.u8(), r.edge16(), rq, r.edge16(), r.bytes(n)))
			}
		}
		for n := 131070; n <= 131076; n++ {
			f(cWRegs(fr, r.u8(), r.edge16(), r.bytes(n)))
			f(cRW(fr, r.u8(), r.edge16(), 1, r.edge16(), r.bytes(n)))
		}
		// every read quantity of FC23 with a legal payload
		step := 7
		if thorough {
			step = 1
		}
		for q := 0; q < 65536; q += step {
			f(cRW(fr, r.u8(), r.edge16(), uint16(q), r.edge16(), r.bytes(2*(1+r.intn(121)))))
		}
		for q := 0; q < 300; q++ {
			f(cRW(fr, r.u8(), r.edge16(), uint16(q), r.edge16(), r.bytes(2*(1+r.intn(121)))))
		}
	}
	n := 20000
	if thorough {
		n = 300000
	}
	for i := 0; i < n; i++ {
		f(randomCtor(r))
	}
}

// randomCtor: mostly valid arguments
func randomCtor(r *rng) ctor {
	fr := r.intn(2)
	switch r.intn(10) {
	case 0, 1:
		fc := 1 + r.intn(2)
		return cRead(fc, fr, r.u8(), r.edge16(), uint16(r.pick([]int{1, 2, 8, 9, 125, 126, 1999, 2000, 2001, 1 + r.intn(2000)})))
	case 2, 3:
		fc := 3 + r.intn(2)
		return cRead(fc, fr, r.u8(), r.edge16(), uint16(r.pick([]int{1, 2, 124, 125, 126, 1 + r.intn(125)})))
	case 4:
		return cWCoil(fr, r.u8(), r.edge16(), r.bool())
	case 5:
		return cWReg(fr, r.u8(), r.edge16(), r.bytes(2))
	case 6:
		return cWCoils(fr, r.u8(), r.edge16(), coilPattern(r, r.pick([]int{1, 7, 8, 9, 16, 17, 1967, 1968, 1969, 1 + r.intn(1968)}), 3))
	case 7:
		return cWRegs(fr, r.u8(), r.edge16(), r.bytes(2*r.pick([]int{1, 2, 122, 123, 124, 125, 1 + r.intn(123)})))
	case 8:
		return cSrvID(fr, r.u8())
	default:
		return cRW(fr, r.u8(), r.edge16(), uint16(r.pick([]int{1, 124, 125, 1 + r.intn(124)})), r.edge16(),
			r.bytes(2*r.pick([]int{1, 120, 121, 122, 123, 124, 1 + r.intn(121)})))
	}
}

func streamCtors(seed uint64, thorough bool) {
	r := newRng(seed)
	genCtors(r, thorough, emitCtor)
}

// ---------- C09: encode -> parse ----------

func parserCodes(c ctor, fcCode int) []int {
	if c.fr == 0 {
		return []int{fcCode, 200}
	}
	return []int{100 + fcCode, 10000 + 100 + fcCode, 201, 202}
}

func streamRtReq(seed uint64, thorough bool) {
	r := newRng(seed)
	gen := func(c ctor) {
		var req packet.Request
		var err error
		func() {
			defer func() { recover() }()
			req, err = c.mk()
		}()
		if err != nil || req == nil {
			return
		}
		if c.fr == 0 && emitted%5 == 3 { // transaction ids chosen by the caller, 0 included
			pokeTransactionID(req, []uint16{0, 0, 1, 0xFFFF, 0x0100}[(emitted/5)%5])
		}
		looked(req)
		tid, _ := projReq(req)
		bytes := req.Bytes()
		for _, w := range parserCodes(c, int(req.FunctionCode())) {
			d := bytes
			code := w
			if w >= 10000 {
				d = bytes[:len(bytes)-2]
				code = w - 10000
			}
			args := append([]V{I(w), S(c.name)}, c.fullArgs(tid)...)
			emit("rt_req", L(args...), parseAny(code, withCap(d, nil)))
		}
	}
	genCtors(r, thorough, gen)
	// RTU requests whose own last two bytes happen to be the CRC of the bytes before them: handed to
	// a per-function parser without the trailer they still are that request (a parser must not guess
	// from the content whether a trailer is present)
	nself := 150
	if thorough {
		nself = 3000
	}
	for i := 0; i < nself; i++ {
		u, start := r.u8(), r.edge16()
		// FC6: the value
		v := crcTrailer([]byte{u, 6, byte(start >> 8), byte(start)})
		gen(cWReg(1, u, start, v))
		// FC16: the last register
		nreg := 1 + r.intn(123)
		data := r.bytes(2 * nreg)
		head := append([]byte{u, 16, byte(start >> 8), byte(start), byte(nreg >> 8), byte(nreg), byte(2 * nreg)}, data[:2*nreg-2]...)
		copy(data[2*nreg-2:], crcTrailer(head))
		gen(cWRegs(1, u, start, data))
		// FC23: the last written register
		rs, rq := r.edge16(), uint16(1+r.intn(125))
		nreg = 1 + r.intn(121)
		data = r.bytes(2 * nreg)
		head = append([]byte{u, 23, byte(rs >> 8), byte(rs), byte(rq >> 8), byte(rq), byte(start >> 8), byte(start), byte(nreg >> 8), byte(nreg), byte(2 * nreg)}, data[:2*nreg-2]...)
		copy(data[2*nreg-2:], crcTrailer(head))
		gen(cRW(1, u, rs, rq, start, data))
		// FC15: the last sixteen coils
		nb := 2 + r.intn(200)
		packed := r.bytes(nb)
		head = append([]byte{u, 15, byte(start >> 8), byte(start), byte((8 * nb) >> 8), byte(8 * nb), byte(nb)}, packed[:nb-2]...)
		copy(packed[nb-2:], crcTrailer(head))
		coils := make([]bool, 8*nb)
		for k := range coils {
			coils[k] = packed[k/8]&(1<<(k%8)) != 0
		}
		gen(cWCoils(1, u, start, coils))
	}
}

// ---------- frames and their mutations ----------

// validFrames returns encoder outputs of every request and response type (TCP and RTU), with the
// parse codes that apply to each
type frame struct {
	bytes []byte
	codes []int
}

func requestFrames(r *rng, n int) []frame {
	var fs []frame
	for i := 0; i < n; i++ {
		c := randomCtor(r)
		req, err := c.mk()
		if err != nil || req == nil {
			continue
		}
		fc := int(req.FunctionCode())
		if c.fr == 0 {
			fs = append(fs, frame{req.Bytes(), []int{fc, 200}})
		} else {
			fs = append(fs, frame{req.Bytes(), []int{100 + fc, 201, 202}})
		}
	}
	return fs
}

func putU16(b []byte, off int, v uint16) { binary.BigEndian.PutUint16(b[off:off+2], v) }

func fixCRC(b []byte) {
	if len(b) < 2 {
		return
	}
	c := packet.CRC16(b[:len(b)-2])
	b[len(b)-2] = byte(c)
	b[len(b)-1] = byte(c >> 8)
}

// streamReqMut: C09 second half -- every 16-bit value patched into the quantity / count / value
// fields of otherwise valid request frames of every function, for per-function parsers and
// dispatchers; plus byte-count perturbations
func streamReqMut(seed uint64, thorough bool) {
	r := newRng(seed)
	base := []ctor{}
	for fr := 0; fr < 2; fr++ {
		base = append(base,
			cRead(1, fr, 1, 10, 5), cRead(2, fr, 2, 11, 6), cRead(3, fr, 3, 12, 7), cRead(4, fr, 4, 13, 8),
			cWCoil(fr, 5, 14, true), cWReg(fr, 6, 15, []byte{1, 2}),
			cWCoils(fr, 7, 16, coilPattern(r, 19, 3)), cWRegs(fr, 8, 17, r.bytes(6)),
			cSrvID(fr, 9), cRW(fr, 10, 18, 3, 19, r.bytes(4)))
	}
	for _, c := range base {
		req, _ := c.mk()
		fc := int(req.FunctionCode())
		orig := req.Bytes()
		off := 1 // index of the function code
		codes := []int{100 + fc, 201, 202}
		if c.fr == 0 {
			off = 7
			codes = []int{fc, 200}
		}
		patch := func(field int, v uint16) {
			if off+field+2 > len(orig) {
				return
			}
			b := append([]byte(nil), orig...)
			putU16(b, off+field, v)
			if c.fr == 1 {
				fixCRC(b)
			}
			for _, w := range codes {
				emit("parse1", L(I(w), B(b), B(nil)), parseAny(w, withCap(b, nil)))
			}
		}
		step := 1
		if !thorough && (fc == 17 || fc == 6) {
			step = 64
		}
		for v := 0; v < 65536; v += step {
			patch(3, uint16(v)) // quantity / count / coil value / register value
		}
		if fc == 23 {
			for v := 0; v < 65536; v += 1 {
				patch(7, uint16(v)) // write quantity
			}
		}
		// byte count field perturbed
		if fc == 15 || fc == 16 || fc == 23 {
			bcOff := off + 5
			if fc == 23 {
				bcOff = off + 9
			}
			for v := 0; v < 256; v++ {
				b := append([]byte(nil), orig...)
				b[bcOff] = byte(v)
				if c.fr == 1 {
					fixCRC(b)
				}
				for _, w := range codes {
					emit("parse1", L(I(w), B(b), B(nil)), parseAny(w, withCap(b, nil)))
				}
			}
		}
	}
}

var boundaryAlphabet = []byte{0, 1, 2, 3, 5, 6, 15, 16, 17, 23, 0x7d, 0x7e, 0x80, 0x83, 0xff}

func emitParse3(w int, vis, s1, s2 []byte) {
	o0 := parseAny(w, withCap(vis, nil))
	o1 := parseAny(w, withCap(vis, s1))
	o2 := parseAny(w, withCap(vis, s2))
	emit("parse3", L(I(w), B(vis), B(s1), B(s2)), L(o0, o1, o2))
}

func responseFrames(r *rng, n int) []frame {
	var fs []frame
	for i := 0; i < n; i++ {
		fr := r.intn(2)
		p := randomResp(r)
		b := respBytes(fr, uint16(1+r.intn(65534)), p)
		fc := int(p.fc)
		if fr == 0 {
			fs = append(fs, frame{b, []int{1000 + fc, 300}})
		} else {
			fs = append(fs, frame{b, []int{1100 + fc, 301, 302}})
		}
	}
	// exception frames
	for i := 0; i < n/8+1; i++ {
		e := packet.ErrorResponseTCP{TransactionID: r.u16(), UnitID: r.u8(), Function: uint8(fcs[r.intn(len(fcs))]), Code: uint8(1 + r.intn(11))}
		fs = append(fs, frame{e.Bytes(), []int{300, 403}})
		e2 := packet.ErrorResponseRTU{UnitID: r.u8(), Function: uint8(fcs[r.intn(len(fcs))]), Code: uint8(1 + r.intn(11))}
		fs = append(fs, frame{e2.Bytes(), []int{301, 302, 404, 405}})
	}
	return fs
}

// streamParse3: C10 -- every parse entry point on (a) all strings over a boundary alphabet up to a
// small length, (b) encoder outputs, all their truncations, substitutions and extensions, with the
// length fields optionally made consistent again, (c) random strings; each with exact capacity and
// with two different junk-filled spare capacities
func streamParse3(seed uint64, thorough bool) {
	r := newRng(seed)
	junk := func() ([]byte, []byte) {
		n := 1 + r.intn(40)
		a := make([]byte, n)
		b := make([]byte, n)
		for i := range a {
			a[i] = byte(r.pick([]int{0, 1, 2, 3, 0x10, 0xff, int(r.u8())}))
			b[i] = ^a[i]
		}
		return a, b
	}
	// (a) exhaustive short strings
	maxLen := 2
	if thorough {
		maxLen = 3
	}
	var rec func(prefix []byte)
	rec = func(prefix []byte) {
		s1, s2 := junk()
		for _, w := range allParseCodes {
			emitParse3(w, prefix, s1, s2)
		}
		if len(prefix) >= maxLen {
			return
		}
		for _, c := range boundaryAlphabet {
			rec(append(append([]byte(nil), prefix...), c))
		}
	}
	rec(nil)
	// headers: MBAP header consistent with the length, then the alphabet at unit/function positions
	for _, fc := range boundaryAlphabet {
		for total := 7; total <= 20; total++ {
			b := make([]byte, total)
			putU16(b, 0, r.u16())
			putU16(b, 4, uint16(total-6))
			if total > 7 {
				b[7] = fc
			}
			for i := 8; i < total; i++ {
				b[i] = byte(r.pick([]int{0, 1, 2, 0x7d, 0xff, int(r.u8())}))
			}
			s1, s2 := junk()
			for _, w := range allParseCodes {
				if w < 100 || w == 200 || w >= 400 {
					emitParse3(w, b, s1, s2)
				}
			}
		}
	}
	// (b) valid frames mutated
	nf := 60
	if thorough {
		nf = 600
	}
	frames := append(requestFrames(r, nf), responseFrames(r, nf)...)
	for _, f := range frames {
		codes := append([]int{}, f.codes...)
		// also a few entry points the frame was not made for
		codes = append(codes, allParseCodes[r.intn(len(allParseCodes))], 400, 401, 403, 404, 405)
		variants := [][]byte{f.bytes}
		// truncations to every length
		for n := 0; n < len(f.bytes); n++ {
			if len(f.bytes) > 40 && n > 20 && n < len(f.bytes)-6 && n%9 != 0 {
				continue
			}
			t := append([]byte(nil), f.bytes[:n]...)
			variants = append(variants, t)
			// ... with the MBAP length made consistent
			if n >= 6 && f.codes[0] < 100 {
				t2 := append([]byte(nil), t...)
				putU16(t2, 4, uint16(n-6))
				variants = append(variants, t2)
			}
		}
		// extensions
		for _, k := range []int{1, 2, 3} {
			variants = append(variants, append(append([]byte(nil), f.bytes...), r.bytes(k)...))
		}
		// substitutions
		for i := 0; i < len(f.bytes) && i < 20; i++ {
			for _, c := range []byte{0, 1, 0x7d, 0x80, 0xf3, 0xff} {
				t := append([]byte(nil), f.bytes...)
				t[i] = c
				variants = append(variants, t)
			}
		}
		for _, v := range variants {
			s1, s2 := junk()
			for _, w := range codes {
				emitParse3(w, v, s1, s2)
			}
		}
	}
	// (a') recogniser-sized strings: exactly the exception frame sizes (9 bytes behind an MBAP
	// header, 3 and 5 bytes for RTU with a correct and an incorrect trailer), every function byte
	for fn := 0; fn < 256; fn++ {
		u, code := r.u8(), byte(r.pick([]int{0, 1, 2, 4, 11, 0xff, int(r.u8())}))
		t := make([]byte, 9)
		putU16(t, 0, r.u16())
		putU16(t, 4, uint16(r.pick([]int{3, 3, 3, 2, 4})))
		t[6], t[7], t[8] = u, byte(fn), code
		body := []byte{u, byte(fn), code}
		good := append(append([]byte(nil), body...), crcTrailer(body)...)
		bad := append([]byte(nil), good...)
		bad[3+r.intn(2)] ^= byte(1 << r.intn(8))
		for _, v := range [][]byte{t, body, good, bad} {
			s1, s2 := junk()
			for _, w := range []int{403, 404, 405, 200, 201, 202, 300, 301, 302} {
				emitParse3(w, v, s1, s2)
			}
		}
	}
	// (c) random strings
	nr := 300
	if thorough {
		nr = 5000
	}
	for i := 0; i < nr; i++ {
		b := r.bytes(r.intn(301))
		if len(b) > 8 && r.bool() {
			b[2], b[3] = 0, 0
			putU16(b, 4, uint16(len(b)-6))
			b[7] = byte(fcs[r.intn(len(fcs))])
		}
		s1, s2 := junk()
		for _, w := range allParseCodes {
			emitParse3(w, b, s1, s2)
		}
	}
	// (d) byte-count sweep: for every byte-counted frame kind, a valid header up to the count byte,
	// the count byte set to every value 0..255, and total lengths around the count position and
	// around the lengths at which 8-bit index arithmetic would wrap; large junk capacity so that an
	// over-long re-slice reads stale bytes instead of panicking
	big1 := make([]byte, 600)
	big2 := make([]byte, 600)
	for i := range big1 {
		big1[i] = byte(r.u8())
		big2[i] = ^big1[i]
	}
	type bcKind struct {
		tcp   bool
		fc    byte
		pos   int // index of the count byte
		codes []int
	}
	var kinds []bcKind
	for _, fc := range []byte{15, 16} {
		kinds = append(kinds, bcKind{true, fc, 12, []int{int(fc), 200}}, bcKind{false, fc, 6, []int{100 + int(fc), 201, 202}})
	}
	kinds = append(kinds, bcKind{true, 23, 16, []int{23, 200}}, bcKind{false, 23, 10, []int{123, 201, 202}})
	for _, fc := range []byte{1, 2, 3, 4, 23, 17} {
		kinds = append(kinds, bcKind{true, fc, 8, []int{1000 + int(fc), 300}}, bcKind{false, fc, 2, []int{1100 + int(fc), 301, 302}})
	}
	for _, k := range kinds {
		for bc := 0; bc < 256; bc++ {
			if !thorough && bc > 8 && bc < 240 && bc%16 != 0 {
				continue
			}
			lens := map[int]bool{}
			for d := 0; d <= 4; d++ {
				lens[k.pos+1+d] = true
			}
			for _, d := range []int{0, 1, 2, 3} {
				lens[(k.pos+1+bc)&0xff+d] = true
				lens[k.pos+1+bc+d] = true
				lens[k.pos+1+bc-d] = true
			}
			for total := range lens {
				if total <= k.pos || total > 300 {
					continue
				}
				b := r.bytes(total)
				off := 0
				if k.tcp {
					b[2], b[3] = 0, 0
					putU16(b, 4, uint16(total-6))
					off = 6
				}
				b[off+1] = k.fc
				// plausible quantities so that the range checks pass
				if k.pos-off >= 6 {
					putU16(b, off+4, uint16(1+r.intn(120)))
				}
				if k.pos-off >= 10 {
					putU16(b, off+8, uint16(1+r.intn(120)))
				}
				b[k.pos] = byte(bc)
				for _, w := range k.codes {
					v := b
					if w == 202 || w == 302 {
						v = append([]byte(nil), b...)
						fixCRC(v)
					}
					emitParse3(w, v, big1, big2)
				}
			}
		}
	}
	for _, n := range []int{70000, 65542} {
		b := r.bytes(n)
		b[2], b[3] = 0, 0
		putU16(b, 4, uint16((n-6)&0xffff))
		for _, w := range []int{200, 300, 400, 401, 3, 1003} {
			emitParse3(w, b, []byte{1}, []byte{2})
		}
	}
	// pairs: parse frame A, keep the decoded value, parse frame B of the same kind from ANOTHER buffer,
	// then look at A's value again: a parser must not keep state between calls (a package-level
	// scratch buffer, a cached value)
	pf := requestFrames(r, 120)
	// ... plus legal payload-carrying requests of every kind, several of each, so that every parser
	// that copies a payload is paired with itself on different payloads
	for rep := 0; rep < 6; rep++ {
		for fr := 0; fr < 2; fr++ {
			var cs []ctor
			cs = append(cs, cWCoils(fr, r.u8(), r.u16(), coilPattern(r, 1+r.intn(40), 3)))
			cs = append(cs, cWRegs(fr, r.u8(), r.u16(), r.bytes(2*(1+r.intn(20)))))
			cs = append(cs, cRW(fr, r.u8(), r.u16(), uint16(1+r.intn(20)), r.u16(), r.bytes(2*(1+r.intn(20)))))
			cs = append(cs, cWReg(fr, r.u8(), r.u16(), r.bytes(2)))
			for _, c := range cs {
				req, err := c.mk()
				if err != nil || req == nil {
					continue
				}
				fc := int(req.FunctionCode())
				if fr == 0 {
					pf = append(pf, frame{req.Bytes(), []int{fc, 200}})
				} else {
					pf = append(pf, frame{req.Bytes(), []int{100 + fc, 201, 202}})
				}
			}
		}
	}
	for i := 0; i+1 < len(pf); i++ {
		a := pf[i]
		for j := i + 1; j < len(pf); j++ {
			b := pf[j]
			if a.codes[0] != b.codes[0] || len(a.bytes) > 80 {
				continue
			}
			for _, w := range a.codes {
				da, db := withCap(a.bytes, nil), withCap(b.bytes, nil)
				o := guard(func() V {
					curInput = nil
					ra, errA := parseReqValue(w, da)
					if errA != nil || ra == nil {
						return L(I(3))
					}
					_, pa := projReq(ra)
					early := L(pa, B(ra.Bytes()))
					_, _ = parseReqValue(w, db)
					_, pl := projReq(ra)
					late := L(pl, B(ra.Bytes()))
					return L(early, late)
				})
				emit("parse_pair", L(I(w), B(a.bytes), B(b.bytes)), o)
			}
			break
		}
	}
	emit("sentinels", L(), sentinelState())
}

// parseReqValue: the request parsers / dispatchers as values (codes as in parseAny)
func parseReqValue(w int, d []byte) (packet.Request, error) {
	switch w {
	case 1:
		return nilIfErr(packet.ParseReadCoilsRequestTCP(d))
	case 2:
		return nilIfErr(packet.ParseReadDiscreteInputsRequestTCP(d))
	case 3:
		return nilIfErr(packet.ParseReadHoldingRegistersRequestTCP(d))
	case 4:
		return nilIfErr(packet.ParseReadInputRegistersRequestTCP(d))
	case 5:
		return nilIfErr(packet.ParseWriteSingleCoilRequestTCP(d))
	case 6:
		return nilIfErr(packet.ParseWriteSingleRegisterRequestTCP(d))
	case 15:
		return nilIfErr(packet.ParseWriteMultipleCoilsRequestTCP(d))
	case 16:
		return nilIfErr(packet.ParseWriteMultipleRegistersRequestTCP(d))
	case 17:
		return nilIfErr(packet.ParseReadServerIDRequestTCP(d))
	case 23:
		return nilIfErr(packet.ParseReadWriteMultipleRegistersRequestTCP(d))
	case 101:
		return nilIfErr(packet.ParseReadCoilsRequestRTU(d))
	case 102:
		return nilIfErr(packet.ParseReadDiscreteInputsRequestRTU(d))
	case 103:
		return nilIfErr(packet.ParseReadHoldingRegistersRequestRTU(d))
	case 104:
		return nilIfErr(packet.ParseReadInputRegistersRequestRTU(d))
	case 105:
		return nilIfErr(packet.ParseWriteSingleCoilRequestRTU(d))
	case 106:
		return nilIfErr(packet.ParseWriteSingleRegisterRequestRTU(d))
	case 115:
		return nilIfErr(packet.ParseWriteMultipleCoilsRequestRTU(d))
	case 116:
		return nilIfErr(packet.ParseWriteMultipleRegistersRequestRTU(d))
	case 117:
		return nilIfErr(packet.ParseReadServerIDRequestRTU(d))
	case 123:
		return nilIfErr(packet.ParseReadWriteMultipleRegistersRequestRTU(d))
	case 200:
		return packet.ParseTCPRequest(d)
	case 201:
		return packet.ParseRTURequest(d)
	case 202:
		// (declared to return a Response although it parses requests)
		r, err := packet.ParseRTURequestWithCRC(d)
		if err != nil {
			return nil, err
		}
		req, _ := r.(packet.Request)
		return req, nil
	}
	return nil, nil
}

// ---------- responses ----------

type respCase struct {
	fc     uint8
	u      uint8
	blen   uint8
	data   []byte
	addr   uint16
	count  uint16
	state  bool
	status uint8
	id     []byte
	add    []byte
}

func (p respCase) proj() V {
	switch p.fc {
	case 1, 2, 3, 4, 23:
		return L(I(int(p.fc)), I(int(p.u)), I(int(p.blen)), B(p.data))
	case 5:
		return L(I(5), I(int(p.u)), I(int(p.addr)), Bool(p.state))
	case 6:
		return L(I(6), I(int(p.u)), I(int(p.addr)), B(p.data[:2]))
	case 15, 16:
		return L(I(int(p.fc)), I(int(p.u)), I(int(p.addr)), I(int(p.count)))
	case 17:
		return L(I(17), I(int(p.u)), I(int(p.status)), B(p.id), B(p.add))
	}
	panic("proj")
}

func respBytes(fr int, tid uint16, p respCase) []byte {
	h := packet.MBAPHeader{TransactionID: tid}
	switch p.fc {
	case 1:
		c := packet.ReadCoilsResponse{UnitID: p.u, CoilsByteLength: p.blen, Data: p.data}
		if fr == 0 {
			return packet.ReadCoilsResponseTCP{MBAPHeader: h, ReadCoilsResponse: c}.Bytes()
		}
		return packet.ReadCoilsResponseRTU{ReadCoilsResponse: c}.Bytes()
	case 2:
		c := packet.ReadDiscreteInputsResponse{UnitID: p.u, InputsByteLength: p.blen, Data: p.data}
		if fr == 0 {
			return packet.ReadDiscreteInputsResponseTCP{MBAPHeader: h, ReadDiscreteInputsResponse: c}.Bytes()
		}
		return packet.ReadDiscreteInputsResponseRTU{ReadDiscreteInputsResponse: c}.Bytes()
	case 3:
		c := packet.ReadHoldingRegistersResponse{UnitID: p.u, RegisterByteLen: p.blen, Data: p.data}
		if fr == 0 {
			return packet.ReadHoldingRegistersResponseTCP{MBAPHeader: h, ReadHoldingRegistersResponse: c}.Bytes()
		}
		return packet.ReadHoldingRegistersResponseRTU{ReadHoldingRegistersResponse: c}.Bytes()
	case 4:
		c := packet.ReadInputRegistersResponse{UnitID: p.u, RegisterByteLen: p.blen, Data: p.data}
		if fr == 0 {
			return packet.ReadInputRegistersResponseTCP{MBAPHeader: h, ReadInputRegistersResponse: c}.Bytes()
		}
		return packet.ReadInputRegistersResponseRTU{ReadInputRegistersResponse: c}.Bytes()
	case 23:
		c := packet.ReadWriteMultipleRegistersResponse{UnitID: p.u, RegisterByteLen: p.blen, Data: p.data}
		if fr == 0 {
			return packet.ReadWriteMultipleRegistersResponseTCP{MBAPHeader: h, ReadWriteMultipleRegistersResponse: c}.Bytes()
		}
		return packet.ReadWriteMultipleRegistersResponseRTU{ReadWriteMultipleRegistersResponse: c}.Bytes()
	case 5:
		c := packet.WriteSingleCoilResponse{UnitID: p.u, StartAddress: p.addr, CoilState: p.state}
		if fr == 0 {
			return packet.WriteSingleCoilResponseTCP{MBAPHeader: h, WriteSingleCoilResponse: c}.Bytes()
		}
		return packet.WriteSingleCoilResponseRTU{WriteSingleCoilResponse: c}.Bytes()
	case 6:
		c := packet.WriteSingleRegisterResponse{UnitID: p.u, Address: p.addr, Data: [2]byte{p.data[0], p.data[1]}}
		if fr == 0 {
			return packet.WriteSingleRegisterResponseTCP{MBAPHeader: h, WriteSingleRegisterResponse: c}.Bytes()
		}
		return packet.WriteSingleRegisterResponseRTU{WriteSingleRegisterResponse: c}.Bytes()
	case 15:
		c := packet.WriteMultipleCoilsResponse{UnitID: p.u, StartAddress: p.addr, CoilCount: p.count}
		if fr == 0 {
			return packet.WriteMultipleCoilsResponseTCP{MBAPHeader: h, WriteMultipleCoilsResponse: c}.Bytes()
		}
		return packet.WriteMultipleCoilsResponseRTU{WriteMultipleCoilsResponse: c}.Bytes()
	case 16:
		c := packet.WriteMultipleRegistersResponse{UnitID: p.u, StartAddress: p.addr, RegisterCount: p.count}
		if fr == 0 {
			return packet.WriteMultipleRegistersResponseTCP{MBAPHeader: h, WriteMultipleRegistersResponse: c}.Bytes()
		}
		return packet.WriteMultipleRegistersResponseRTU{WriteMultipleRegistersResponse: c}.Bytes()
	case 17:
		c := packet.ReadServerIDResponse{UnitID: p.u, Status: p.status, ServerID: p.id, AdditionalData: p.add}
		if fr == 0 {
			return packet.ReadServerIDResponseTCP{MBAPHeader: h, ReadServerIDResponse: c}.Bytes()
		}
		return packet.ReadServerIDResponseRTU{ReadServerIDResponse: c}.Bytes()
	}
	panic("respBytes")
}

func byteCountResp(r *rng, fc uint8, n int) respCase {
	return respCase{fc: fc, u: r.u8(), blen: uint8(n), data: r.bytes(n)}
}

func randomResp(r *rng) respCase {
	fc := uint8(fcs[r.intn(len(fcs))])
	switch fc {
	case 1, 2:
		return byteCountResp(r, fc, r.pick([]int{1, 2, 3, 250, 1 + r.intn(250)}))
	case 3, 4, 23:
		return byteCountResp(r, fc, 2*r.pick([]int{1, 2, 124, 125, 1 + r.intn(125)}))
	case 5:
		return respCase{fc: 5, u: r.u8(), addr: r.edge16(), state: r.bool()}
	case 6:
		return respCase{fc: 6, u: r.u8(), addr: r.edge16(), data: r.bytes(2)}
	case 15, 16:
		return respCase{fc: fc, u: r.u8(), addr: r.edge16(), count: r.edge16()}
	default:
		var add []byte
		if r.bool() {
			add = r.bytes(r.intn(20))
		}
		return respCase{fc: 17, u: r.u8(), status: uint8(r.pick([]int{0, 0xff, int(r.u8())})), id: r.bytes(1 + r.intn(40)), add: add}
	}
}

func emitRtResp(fr int, tid uint16, p respCase, codes []int) {
	var enc []byte
	if o := guard(func() V { enc = respBytes(fr, tid, p); return nil }); o != nil {
		for _, w := range codes {
			emit("rt_resp", L(I(w), I(fr), p.proj(), I(int(tid))), o)
		}
		return
	}
	for _, w := range codes {
		emit("rt_resp", L(I(w), I(fr), p.proj(), I(int(tid))), L(B(enc), parseAny(w, withCap(enc, nil))))
	}
}

// streamResp: C02 -- every response encoder output for every byte count 0..255 through the
// per-function parser and the dispatchers; FC17 in both layouts; all 128 x 256 exception frames
func streamResp(seed uint64, thorough bool) {
	r := newRng(seed)
	reps := 1
	if thorough {
		reps = 20
	}
	for rep := 0; rep < reps; rep++ {
		for _, fc := range []uint8{1, 2, 3, 4, 23} {
			for n := 0; n < 256; n++ {
				p := byteCountResp(r, fc, n)
				emitRtResp(0, uint16(1+r.intn(65535)), p, []int{1000 + int(fc), 300})
				emitRtResp(1, 0, p, []int{1100 + int(fc), 301, 302})
			}
		}
		for i := 0; i < 400; i++ {
			for _, fc := range []uint8{5, 6, 15, 16} {
				var p respCase
				switch fc {
				case 5:
					p = respCase{fc: 5, u: r.u8(), addr: r.edge16(), state: r.bool()}
				case 6:
					p = respCase{fc: 6, u: r.u8(), addr: r.edge16(), data: r.bytes(2)}
				default:
					p = respCase{fc: fc, u: r.u8(), addr: r.edge16(), count: r.edge16()}
				}
				emitRtResp(0, r.u16(), p, []int{1000 + int(fc), 300})
				emitRtResp(1, 0, p, []int{1100 + int(fc), 301, 302})
			}
		}
		// FC17: frames built here from the two layouts (not by the library's encoder)
		for i := 0; i < 600; i++ {
			id := r.bytes(1 + r.intn(r.pick([]int{3, 20, 120})))
			var add []byte
			if r.intn(3) > 0 {
				add = r.bytes(r.intn(r.pick([]int{2, 10, 100})))
			}
			run := uint8(r.pick([]int{0, 0xff, int(r.u8())}))
			u := r.u8()
			tid := r.u16()
			for layout := 0; layout < 2; layout++ {
				cnt := len(id)
				if layout == 0 {
					cnt = len(id) + 1 + len(add)
				}
				pdu := append([]byte{17, byte(cnt)}, id...)
				pdu = append(pdu, run)
				pdu = append(pdu, add...)
				tcp := make([]byte, 7+len(pdu))
				putU16(tcp, 0, tid)
				putU16(tcp, 4, uint16(1+len(pdu)))
				tcp[6] = u
				copy(tcp[7:], pdu)
				rtu := append([]byte{u}, pdu...)
				rtu = append(rtu, 0, 0)
				fixCRC(rtu)
				for _, w := range []int{1017, 300} {
					emit("fc17", L(I(w), I(0), I(int(tid)), I(int(u)), B(id), I(int(run)), B(add), I(layout)), parseAny(w, withCap(tcp, nil)))
				}
				for _, w := range []int{1117, 301, 302} {
					emit("fc17", L(I(w), I(1), I(0), I(int(u)), B(id), I(int(run)), B(add), I(layout)), parseAny(w, withCap(rtu, nil)))
				}
			}
		}
	}
	// the library's own FC17 encoder
	for i := 0; i < 300; i++ {
		p := respCase{fc: 17, u: r.u8(), status: r.u8(), id: r.bytes(1 + r.intn(60))}
		if r.bool() {
			p.add = r.bytes(1 + r.intn(30))
		}
		emitRtResp(0, r.u16(), p, []int{1017, 300})
		emitRtResp(1, 0, p, []int{1117, 301, 302})
	}
	// every exception frame: 128 function codes x 256 codes, built from the specification
	for fcb := 128; fcb < 256; fcb++ {
		for code := 0; code < 256; code++ {
			tid := r.u16()
			u := r.u8()
			tcp := []byte{byte(tid >> 8), byte(tid), 0, 0, 0, 3, u, byte(fcb), byte(code)}
			rtu := []byte{u, byte(fcb), byte(code), 0, 0}
			fixCRC(rtu)
			for _, w := range []int{300, 403} {
				emit("exc", L(I(w), I(int(tid)), I(int(u)), I(fcb), I(code)), parseAny(w, withCap(tcp, nil)))
			}
			for _, w := range []int{301, 302, 404, 405} {
				emit("exc", L(I(w), I(0), I(int(u)), I(fcb), I(code)), parseAny(w, withCap(rtu, nil)))
			}
		}
	}
}

// streamRespMut: C02 (c) -- byte-count / length disagreements and function bytes with the high
// bit set on otherwise valid response frames
func streamRespMut(seed uint64, thorough bool) {
	r := newRng(seed)
	n := 400
	if thorough {
		n = 4000
	}
	for _, f := range responseFrames(r, n) {
		tcp := f.codes[0] < 1100 && f.codes[0] != 301 && f.codes[0] != 302
		cntOff := 2
		fcOff := 1
		if tcp {
			cntOff = 8
			fcOff = 7
		}
		var variants [][]byte
		variants = append(variants, f.bytes)
		for _, d := range []int{-3, -2, -1, 1, 2, 3, 255, 256, 257, 512, -256} {
			// count field changed
			if cntOff < len(f.bytes) && d < 4 && d > -4 {
				t := append([]byte(nil), f.bytes...)
				t[cntOff] = byte(int(t[cntOff]) + d)
				if !tcp {
					fixCRC(t)
				}
				variants = append(variants, t)
			}
			// frame cut / extended, MBAP length or CRC made consistent again
			nl := len(f.bytes) + d
			if nl > 4 {
				t := make([]byte, nl)
				copy(t, f.bytes)
				if tcp {
					putU16(t, 4, uint16(nl-6))
				} else {
					fixCRC(t)
				}
				variants = append(variants, t)
			}
		}
		// bytes behind the frame with the header left as it was (a buffer that already holds the
		// beginning of the next packet): the frame's length no longer agrees with its count
		for _, k := range []int{1, 2, 3, 7} {
			variants = append(variants, append(append([]byte(nil), f.bytes...), r.bytes(k)...))
		}
		// high bit at the function position
		t := append([]byte(nil), f.bytes...)
		t[fcOff] |= 0x80
		if !tcp {
			fixCRC(t)
		}
		variants = append(variants, t)
		for _, v := range variants {
			for _, w := range f.codes {
				emit("parse1", L(I(w), B(v), B(nil)), parseAny(w, withCap(v, nil)))
			}
		}
	}
}

// streamEncRTU: C03 (b) -- the response and exception encoders (request encoders come from "ctors")
func streamEncRTU(seed uint64, thorough bool) {
	r := newRng(seed)
	n := 4000
	if thorough {
		n = 40000
	}
	for i := 0; i < n; i++ {
		p := randomResp(r)
		fr := r.intn(2)
		tid := r.u16()
		emit("resp_bytes", L(I(fr), p.proj(), I(int(tid))), guard(func() V { return B(respBytes(fr, tid, p)) }))
	}
	// response values whose count field disagrees with the payload they carry (shorter: the encoder
	// zero-pads, longer: it truncates) and FC17 values with and without additional data: the trailer
	// must be the CRC of the bytes actually emitted
	for _, fc := range []uint8{1, 2, 3, 4, 23} {
		for blen := 0; blen <= 255; blen++ {
			if !thorough && blen > 12 && blen%17 != 0 && blen < 248 {
				continue
			}
			for _, dl := range []int{blen, blen - 1, blen - 2, blen + 1, blen + 3, 0} {
				if dl < 0 || dl > 255 {
					continue
				}
				if (fc == 1 || fc == 2) && dl != blen {
					continue // FC1/FC2 derive the count from the payload
				}
				p := respCase{fc: fc, u: r.u8(), blen: uint8(blen), data: r.bytes(dl)}
				for fr := 0; fr < 2; fr++ {
					tid := r.u16()
					fr := fr
					emit("resp_bytes", L(I(fr), p.proj(), I(int(tid))), guard(func() V { return B(respBytes(fr, tid, p)) }))
				}
			}
		}
	}
	for fc := 0; fc < 256; fc++ {
		for _, code := range []int{0, 1, 2, 3, 4, 11, 255, r.intn(256)} {
			u := r.u8()
			tid := r.u16()
			// each frame is encoded twice; the first result is overwritten by its owner (the caller)
			// in between: a later frame must not depend on what was done to an earlier one
			for rep := 0; rep < 2; rep++ {
				t := packet.ErrorResponseTCP{TransactionID: tid, UnitID: u, Function: uint8(fc), Code: uint8(code)}.Bytes()
				emit("exc_bytes", L(I(0), I(int(tid)), I(int(u)), I(fc), I(code)), B(t))
				q := packet.ErrorResponseRTU{UnitID: u, Function: uint8(fc), Code: uint8(code)}.Bytes()
				emit("exc_bytes", L(I(1), I(0), I(int(u)), I(fc), I(code)), B(q))
				for i := range t {
					t[i] ^= 0xA5
				}
				for i := range q {
					q[i] ^= 0x5A
				}
			}
		}
	}
}

// streamCrcGate: C03 (c) -- all 65 536 trailers on one frame per function and direction, other
// trailer values on sampled frames
func streamCrcGate(seed uint64, thorough bool) {
	r := newRng(seed)
	var frames []frame
	for _, f := range append(requestFrames(r, 400), responseFrames(r, 400)...) {
		if f.codes[0] >= 100 && f.codes[0] < 200 {
			frames = append(frames, frame{f.bytes, []int{202}})
		} else if f.codes[0] >= 1100 || f.codes[0] == 301 {
			frames = append(frames, frame{f.bytes, []int{302}})
		}
	}
	seen := map[int]bool{}
	for _, f := range frames {
		w := f.codes[0]
		key := w*1000 + int(f.bytes[1])
		full := !seen[key] && (thorough || int(f.bytes[1])%3 == 0)
		seen[key] = true
		n := len(f.bytes)
		good := binary.LittleEndian.Uint16(f.bytes[n-2:])
		try := func(t uint16) {
			b := append([]byte(nil), f.bytes...)
			binary.LittleEndian.PutUint16(b[n-2:], t)
			emit("parse1", L(I(w), B(b), B(nil)), parseAny(w, withCap(b, nil)))
		}
		try(good)
		// one buffer reused the way a client reuses its read buffer: the good frame, then the trailer
		// and then the body overwritten in place -- a verdict may depend on the bytes only, never on
		// what the same memory held at an earlier call
		{
			buf := append([]byte(nil), f.bytes...)[:n:n]
			emit("parse1", L(I(w), B(buf), B(nil)), parseAny(w, buf))
			binary.LittleEndian.PutUint16(buf[n-2:], good^uint16(1+r.intn(65535)))
			emit("parse1", L(I(w), B(buf), B(nil)), parseAny(w, buf))
			binary.LittleEndian.PutUint16(buf[n-2:], good)
			buf[r.intn(n-2)] ^= byte(1 << r.intn(8))
			emit("parse1", L(I(w), B(buf), B(nil)), parseAny(w, buf))
		}
		if full {
			for t := 0; t < 65536; t++ {
				try(uint16(t))
			}
		} else {
			for _, t := range []uint16{good ^ 1, good ^ 0x8000, good<<8 | good>>8, 0, 0xffff, r.u16()} {
				try(t)
			}
		}
		// corruption of the body with the trailer kept
		b := append([]byte(nil), f.bytes...)
		b[r.intn(n-2)] ^= byte(1 << r.intn(8))
		emit("parse1", L(I(w), B(b), B(nil)), parseAny(w, withCap(b, nil)))
	}
	for n := 0; n < 6; n++ {
		b := r.bytes(n)
		emit("parse1", L(I(202), B(b), B(nil)), parseAny(202, withCap(b, nil)))
		emit("parse1", L(I(302), B(b), B(nil)), parseAny(302, withCap(b, nil)))
	}
	// the CRC-checking exception recogniser: 5-byte frames with and without the exception bit, with the
	// right and with wrong trailers, and CRC-consistent 5-byte heads followed by further bytes
	for i := 0; i < 600; i++ {
		b := []byte{r.u8(), r.u8(), r.u8(), 0, 0}
		if i%2 == 0 {
			b[1] |= 0x80
		} else {
			b[1] &= 0x7f
		}
		fixCRC(b)
		variants := [][]byte{b}
		for _, t := range []byte{1, 0x80} {
			c := append([]byte(nil), b...)
			c[3+r.intn(2)] ^= t
			variants = append(variants, c)
		}
		for k := 1; k <= 3; k++ {
			variants = append(variants, append(append([]byte(nil), b...), r.bytes(k)...))
			e := append(append([]byte(nil), b...), r.bytes(k)...)
			fixCRC(e)
			variants = append(variants, e)
		}
		for _, v := range variants {
			for _, w := range []int{404, 405, 302} {
				emit("parse1", L(I(w), B(v), B(nil)), parseAny(w, withCap(v, nil)))
			}
		}
		// the recognisers on one reused 5-byte buffer: right trailer, then wrong in place
		for _, w := range []int{404, 405, 302} {
			buf := append([]byte(nil), b...)[:5:5]
			emit("parse1", L(I(w), B(buf), B(nil)), parseAny(w, buf))
			buf[3+r.intn(2)] ^= byte(1 << r.intn(8))
			emit("parse1", L(I(w), B(buf), B(nil)), parseAny(w, buf))
			buf[2] ^= 0x10
			emit("parse1", L(I(w), B(buf), B(nil)), parseAny(w, buf))
		}
	}
}

// ---------- coils (C11) ----------

func isCoilSet(fc int, data []byte, start, addr uint16) V {
	return guard(func() V {
		var v bool
		var err error
		// the byte-length field of a response value is redundant (the encoders derive the count from
		// Data): a value built in code may leave it 0 or stale, the lookup must not depend on it
		bl := uint8(len(data))
		switch (int(start) + int(addr) + len(data)) % 4 {
		case 1:
			bl = 0
		case 2:
			bl = uint8(len(data) / 2)
		}
		// the lookup is made before and after the response value has been printed: the answer of
		// a response must not depend on whether somebody logged it
		var v0 bool
		var err0 error
		if fc == 1 {
			r := packet.ReadCoilsResponse{UnitID: 1, CoilsByteLength: bl, Data: data}
			v0, err0 = r.IsCoilSet(start, addr)
			looked(r)
			v, err = r.IsCoilSet(start, addr)
		} else {
			r := packet.ReadDiscreteInputsResponse{UnitID: 1, InputsByteLength: bl, Data: data}
			v0, err0 = r.IsInputSet(start, addr)
			looked(r)
			v, err = r.IsInputSet(start, addr)
		}
		if v0 != v || (err0 == nil) != (err == nil) {
			return L(I(97), Bool(v0), Bool(err0 == nil), Bool(v), Bool(err == nil))
		}
		if err != nil {
			return vErr()
		}
		return vOk(Bool(v))
	})
}

func streamCoils(seed uint64, thorough bool) {
	r := newRng(seed)
	// payloads of every length 1..250, start at edges and random, every offset -3..8*len+3
	for n := 1; n <= 250; n++ {
		if !thorough && n > 24 && n%7 != 0 && n < 245 {
			continue
		}
		for rep := 0; rep < 2; rep++ {
			data := r.bytes(n)
			start := r.edge16()
			fc := 1 + rep
			for off := -3; off <= 8*n+3; off++ {
				a := int(start) + off
				if a < 0 || a > 65535 {
					continue
				}
				emit("is_coil_set", L(I(fc), B(data), I(int(start)), I(a)), isCoilSet(fc, data, start, uint16(a)))
			}
		}
	}
	// packing
	for n := 0; n <= 2000; n++ {
		if !thorough && n > 70 && n%13 != 0 {
			continue
		}
		c := coilPattern(r, n, 3)
		emit("coils_to_bytes", L(B(boolBytes(c))), guard(func() V { return B(packet.CoilsToBytes(c)) }))
	}
	// one coil table written in chunks (sub-slices share the table's backing array): every chunk is
	// packed and read back as the table held it before the first call
	ntab := 60
	if thorough {
		ntab = 600
	}
	for t := 0; t < ntab; t++ {
		size := 9 + r.intn(120)
		table := coilPattern(r, size, 1+r.intn(3))
		orig := append([]bool(nil), table...)
		base := uint16(r.intn(60000))
		fr := r.intn(2)
		for a := 0; a < size; {
			b := a + 1 + r.intn(17)
			if b > size {
				b = size
			}
			chunk := table[a:b]
			want := orig[a:b]
			emit("coils_to_bytes", L(B(boolBytes(want))), guard(func() V { return B(packet.CoilsToBytes(chunk)) }))
			emit("coil_readback", L(B(boolBytes(want)), I(int(base)+a), I(fr)), coilReadback(fr, base+uint16(a), chunk))
			a = b
		}
	}
	// write / read back through a device that follows the specification's layout
	for n := 1; n <= 1968; n++ {
		if !thorough && n > 40 && n%29 != 0 && n < 1960 {
			continue
		}
		coils := coilPattern(r, n, 3)
		start := uint16(r.intn(65536 - n))
		fr := n % 2 // both framings' constructors
		if n >= 1960 || n <= 16 {
			fr = r.intn(2)
		}
		for _, frm := range map[bool][]int{true: {0, 1}, false: {fr}}[n >= 1960 || n <= 16] {
			fr := frm
			o := coilReadback(fr, start, coils)
			emit("coil_readback", L(B(boolBytes(coils)), I(int(start)), I(fr)), o)
		}
	}
}

// coilReadback: write [coils] at [start] through the library's constructor to a device that follows
// the specification's layout, read the same range back through the library's response accessor
func coilReadback(fr int, start uint16, coils []bool) V {
	n := len(coils)
	{
		{
			o := guard(func() V {
				var data []byte
				if fr == 0 {
					req, err := packet.NewWriteMultipleCoilsRequestTCP(1, start, coils)
					if err != nil {
						return L(I(3))
					}
					looked(req)
					data = req.Data
					if raw := req.Bytes(); len(raw) == 13+len(data) { // the device sees the frame, not the struct
						data = raw[13:]
					}
				} else {
					req, err := packet.NewWriteMultipleCoilsRequestRTU(1, start, coils)
					if err != nil {
						return L(I(3))
					}
					looked(req)
					data = req.Data
					if raw := req.Bytes(); len(raw) == 9+len(data) {
						data = raw[7 : len(raw)-2]
					}
				}
				// device: decode the request data by the specification's layout into memory
				mem := make([]bool, n)
				for i := range mem {
					mem[i] = data[i/8]&(1<<(i%8)) != 0
				}
				// device: answer a read of [start, start+n) with the specification's packing
				payload := make([]byte, (n+7)/8)
				for i, b := range mem {
					if b {
						payload[i/8] |= 1 << (i % 8)
					}
				}
				resp := packet.ReadCoilsResponse{UnitID: 1, CoilsByteLength: uint8(len(payload)), Data: payload}
				got := make([]byte, n)
				for i := range got {
					v, err := resp.IsCoilSet(start, start+uint16(i))
					switch {
					case err != nil:
						got[i] = 2
					case v:
						got[i] = 1
					}
				}
				return B(got)
			})
			return o
		}
	}
}

// ---------- classifier (C18) ----------

func classify(data []byte, allow bool) V {
	return guard(func() V {
		n, err := packet.LooksLikeModbusTCP(data, allow)
		pe := L()
		po := L(I(3))
		if err != nil {
			pe = L(projErrTail(err)...)
		} else if n <= len(data) {
			po = parseAny(200, withCap(data[:n], nil))
		}
		return L(I(n), pe, po)
	})
}

func streamClassify(seed uint64, thorough bool) {
	r := newRng(seed)
	// every prefix of encoder outputs
	nctor := 400
	if thorough {
		nctor = 800
	}
	cases := []ctor{}
	for i := 0; i < nctor; i++ {
		c := randomCtor(r)
		c.fr = 0
		cases = append(cases, c)
	}
	for u := 0; u < 256; u += 5 {
		cases = append(cases, cSrvID(0, uint8(u)))
	}
	for _, c0 := range cases {
		// rebuild with framing 0 (randomCtor closes over its own framing)
		c := rebuildTCP(r, c0)
		req, err := c.mk()
		if err != nil || req == nil {
			continue
		}
		tid, _ := projReq(req)
		bytes := req.Bytes()
		for k := 0; k <= len(bytes); k++ {
			if k > 14 && k < len(bytes)-2 && k%17 != 0 {
				continue
			}
			o := guard(func() V {
				n, err := packet.LooksLikeModbusTCP(bytes[:k], false)
				if err != nil {
					return L(I(n), L(projErrTail(err)...))
				}
				return L(I(n), L())
			})
			args := append([]V{I(k), S(c.name)}, c.fullArgs(tid)...)
			emit("classify_enc", L(args...), o)
		}
		emit("classify", L(B(bytes), Bool(false)), classify(bytes, false))
	}
	// headers: length fields x function codes x protocol ids
	fcsT := []int{0, 1, 2, 3, 4, 5, 6, 7, 14, 15, 16, 17, 18, 22, 23, 24, 43, 100, 126, 127, 128, 129, 200, 255}
	lenStep := 109
	if thorough {
		lenStep = 1
	}
	for l := 0; l < 65536; l++ {
		if l > 300 && l%lenStep != 0 && l < 65530 {
			continue
		}
		for _, fc := range fcsT {
			for _, proto := range []int{0, 1, 256} {
				if proto != 0 && (l%5 != 0 || fc%3 != 0) {
					continue
				}
				total := 8
				// sometimes the full announced frame is present
				if l+6 <= 300 && r.intn(3) > 0 {
					total = l + 6
					if total < 8 {
						total = 8
					}
				} else if r.intn(4) == 0 {
					total = 8 + r.intn(12)
				}
				b := make([]byte, total)
				for i := 8; i < total; i++ {
					b[i] = byte(r.pick([]int{0, 1, 2, 4, 0x7d, 0xff, int(r.u8())}))
				}
				putU16(b, 0, r.u16())
				putU16(b, 2, uint16(proto))
				putU16(b, 4, uint16(l))
				b[6] = r.u8()
				b[7] = byte(fc)
				emit("classify", L(B(b), Bool(false)), classify(b, false))
				if l%11 == 0 {
					emit("classify", L(B(b), Bool(true)), classify(b, true))
				}
			}
		}
	}
	// protocol ids: a complete, otherwise valid FC3 / FC16 request under every protocol id of the
	// families a folded test gets wrong (bytes that sum, xor, and or multiply to 0 mod 256) plus a
	// random sample; thorough = all 65 536 ids
	for p := 0; p < 65536; p++ {
		hi, lo := p>>8, p&0xff
		fam := hi == 0 || lo == 0 || (hi+lo)&0xff == 0 || hi == lo || hi&lo == 0 || (hi*lo)&0xff == 0 || hi|lo == 0xff
		if !thorough && !fam && r.intn(40) != 0 {
			continue
		}
		b := []byte{0, 0, 0, 0, 0, 6, 1, 3, 0, 10, 0, 2}
		if p%3 == 1 {
			b = []byte{0, 0, 0, 0, 0, 9, 1, 16, 0, 10, 0, 1, 2, 0xab, 0xcd}
		}
		putU16(b, 0, r.u16())
		putU16(b, 2, uint16(p))
		allow := p%7 == 0
		emit("classify", L(B(b), Bool(allow)), classify(b, allow))
	}
	// dense grid of short announced lengths with the whole announced frame present and plausible
	// field values: this is where a parser's minimum-length guard and the classifier can disagree
	reps := 12
	if thorough {
		reps = 120
	}
	for l := 0; l <= 40; l++ {
		for _, fc := range []int{1, 2, 3, 4, 5, 6, 15, 16, 17, 23, 7, 24, 128} {
			for rep := 0; rep < reps; rep++ {
				total := l + 6
				if total < 8 {
					total = 8
				}
				b := make([]byte, total)
				for i := 8; i < total; i++ {
					b[i] = byte(r.pick([]int{0, 0, 1, 2, 4, 0x7d, 0xff, int(r.u8())}))
				}
				// quantity-like fields in range most of the time
				for _, off := range []int{10, 14} {
					if off+2 <= total && r.intn(4) > 0 {
						putU16(b, off, uint16(1+r.intn(120)))
					}
				}
				putU16(b, 0, r.u16())
				putU16(b, 4, uint16(l))
				b[6] = r.u8()
				b[7] = byte(fc)
				emit("classify", L(B(b), Bool(false)), classify(b, false))
			}
		}
	}
	for n := 0; n < 8; n++ {
		b := r.bytes(n)
		emit("classify", L(B(b), Bool(false)), classify(b, false))
	}
	// pairs: classify A, keep its error object, classify B, then look at A's error again
	for i := 0; i < 400; i++ {
		mk := func() []byte {
			b := make([]byte, 8+r.intn(6))
			for j := range b {
				b[j] = r.u8()
			}
			putU16(b, 2, 0)
			putU16(b, 4, uint16(3+r.intn(20)))
			b[7] = byte(r.pick([]int{7, 8, 11, 12, 20, 22, 24, 43, 100, 126, 127, 0, 3, 16}))
			return b
		}
		a, b2 := mk(), mk()
		o := guard(func() V {
			_, errA := packet.LooksLikeModbusTCP(a, false)
			early := L()
			if errA != nil {
				early = L(projErrTail(errA)...)
			}
			_, _ = packet.LooksLikeModbusTCP(b2, false)
			late := L()
			if errA != nil {
				late = L(projErrTail(errA)...)
			}
			return L(early, late)
		})
		emit("classify_pair", L(B(a), B(b2)), o)
	}
	emit("sentinels", L(), sentinelState())
}

// rebuildTCP returns a TCP constructor case with the same kind of arguments
func rebuildTCP(r *rng, c ctor) ctor {
	for {
		n := randomCtor(r)
		if n.fr == 0 && n.name == c.name {
			return n
		}
		if c.name == "new_srvid" {
			return cSrvID(0, r.u8())
		}
	}
}

// crcTrailer: the two CRC bytes (low byte first) of the serial-line specification, computed bit by
// bit here so that generated inputs do not depend on the library's own CRC16
func crcTrailer(b []byte) []byte {
	crc := uint16(0xFFFF)
	for _, x := range b {
		crc ^= uint16(x)
		for i := 0; i < 8; i++ {
			if crc&1 != 0 {
				crc = crc>>1 ^ 0xA001
			} else {
				crc >>= 1
			}
		}
	}
	return []byte{byte(crc), byte(crc >> 8)}
}
