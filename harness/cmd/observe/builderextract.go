package main

// Builder layer, property C05: the "extract" stream.
//
// A field list goes through the builder; every request is encoded with Bytes(); a device that
// conforms to the Modbus specification is SIMULATED FROM THESE BYTES (it decodes unit, function,
// start and quantity off the wire and answers with the registers / coils of its memory image, or
// with exception 02 when the range leaves the address space; optionally with only the first k
// items); the reply is parsed by the real response dispatcher and handed to the real
// BuilderRequest.ExtractFields, strict and lenient.  The device memory is the seeded image
// mem_word / mem_coil of coq/BuilderSpec.v, one image per (server, unit).

import (
	"errors"
	"math"

	modbus "github.com/aldas/go-modbus-client"
	"github.com/aldas/go-modbus-client/packet"
)

func init() {
	streams["extract"] = streamExtract
}

func memWord(seed uint64, a uint64) uint16 {
	h0 := (a+1)*40503 + seed*25173
	h := (h0 ^ (h0 >> 7)) & 65535
	switch seed & 3 {
	case 0:
		return uint16((32+((h>>8)&63))*256 + 33 + (h & 63))
	case 2:
		switch h & 3 {
		case 0:
			return 0
		case 1:
			return 65535
		}
	}
	return uint16(h)
}

func memCoil(seed uint64, a uint64) bool { return (memWord(seed+1, a)>>5)&1 == 1 }

func devSeed(ms uint64, srv string, u uint8) uint64 {
	h := ms
	for i := 0; i < len(srv); i++ {
		h = (h*31 + uint64(srv[i])) % 65536
	}
	return (h*257 + uint64(u)) % 65536
}

// the CRC of the serial line specification, written out here so that the simulated device does
// not depend on the library under test
func deviceCRC(b []byte) uint16 {
	crc := uint16(0xFFFF)
	for _, x := range b {
		crc ^= uint16(x)
		for i := 0; i < 8; i++ {
			if crc&1 == 1 {
				crc = (crc >> 1) ^ 0xA001
			} else {
				crc >>= 1
			}
		}
	}
	return crc
}

// deviceReply: the conforming device; k < 0 = complete answer, otherwise only the first k items.
// Returns the reply (exact capacity), and start / quantity as read off the wire.
func deviceReply(tcp bool, seed uint64, req []byte, k int) ([]byte, int, int) {
	off := 0
	if tcp {
		off = 6
	}
	unit, fc := req[off], req[off+1]
	s := int(req[off+2])<<8 | int(req[off+3])
	q := int(req[off+4])<<8 | int(req[off+5])
	n := q
	if k >= 0 && k < q {
		n = k
	}
	var pdu []byte
	switch {
	case s+q > 65536:
		pdu = []byte{fc + 128, 2}
	case fc == 1 || fc == 2:
		nb := (n + 7) / 8
		data := make([]byte, nb)
		for i := 0; i < n; i++ {
			if memCoil(seed, uint64(s+i)) {
				data[i/8] |= 1 << uint(i%8)
			}
		}
		pdu = append([]byte{fc, byte(nb)}, data...)
	default:
		pdu = []byte{fc, byte(2 * n)}
		for i := 0; i < n; i++ {
			w := memWord(seed, uint64(s+i))
			pdu = append(pdu, byte(w>>8), byte(w))
		}
	}
	var frame []byte
	if tcp {
		l := 1 + len(pdu)
		frame = append([]byte{req[0], req[1], 0, 0, byte(l >> 8), byte(l), unit}, pdu...)
	} else {
		frame = append([]byte{unit}, pdu...)
		c := deviceCRC(frame)
		frame = append(frame, byte(c), byte(c>>8))
	}
	out := make([]byte, len(frame))
	copy(out, frame)
	return out, s, q
}

func projFieldValue(v interface{}) V {
	switch x := v.(type) {
	case bool:
		return Bool(x)
	case uint8:
		return U(uint64(x))
	case int8:
		return I(int(x))
	case uint16:
		return U(uint64(x))
	case int16:
		return I(int(x))
	case uint32:
		return U(uint64(x))
	case int32:
		return I(int(x))
	case uint64:
		return U(x)
	case int64:
		return vInt(x)
	case float32:
		return U(uint64(math.Float32bits(x)))
	case float64:
		return U(math.Float64bits(x))
	case string:
		return S(x)
	}
	return L(I(99))
}

// heldExtraction keeps what ExtractFields returned (strict and lenient) without looking at the
// values; they are projected later, after other extractions have run (a returned string must stay
// what it was)
type heldExtraction struct {
	head         []V
	noResp       bool
	sv, lv       []modbus.FieldValue
	se, le       error
	sPanic, lPan bool
}

func (h *heldExtraction) run(q modbus.BuilderRequest, resp packet.Response) {
	func() {
		defer func() {
			if recover() != nil {
				h.sPanic = true
			}
		}()
		h.sv, h.se = q.ExtractFields(resp, false)
	}()
	func() {
		defer func() {
			if recover() != nil {
				h.lPan = true
			}
		}()
		h.lv, h.le = q.ExtractFields(resp, true)
	}()
}
func (h *heldExtraction) strict(fields []modbus.Field) V {
	switch {
	case h.noResp:
		return L(I(4))
	case h.sPanic:
		return vPanic()
	}
	return projExtraction(fields, h.sv, h.se)
}
func (h *heldExtraction) lenient(fields []modbus.Field) V {
	switch {
	case h.noResp:
		return L(I(4))
	case h.lPan:
		return vPanic()
	}
	return projExtraction(fields, h.lv, h.le)
}

func projExtraction(fields []modbus.Field, vals []modbus.FieldValue, err error) V {
	if err != nil && vals == nil {
		return L(I(1))
	}
	es := make([]V, 0, len(vals))
	for _, fv := range vals {
		id := fieldID(fields, fv.Field)
		if fv.Error != nil {
			es = append(es, L(I(id), I(1)))
		} else {
			es = append(es, L(I(id), I(0), projFieldValue(fv.Value)))
		}
	}
	switch {
	case err == nil:
		return L(I(0), vList(es))
	case errors.Is(err, modbus.ErrorFieldExtractHadError):
		return L(I(3), vList(es))
	}
	return L(I(9), vList(es))
}

// extractCase: kmode 0 = complete replies, 1 = one request truncated, 2 = all truncated,
// 3 = request number kreq truncated to exactly kfix items
func extractCase(r *rng, target int, fields []modbus.Field, fluent bool, ms uint64, kmode, kreq, kfix int) {
	var tids, ks []V
	outcome := guard(func() V {
		reqs, err := callBuilder(target, fields, fluent)
		if err != nil {
			return vErr(Bool(reqs == nil))
		}
		sortRequests(reqs)
		which := -1
		if kmode == 1 && len(reqs) > 0 {
			which = r.intn(len(reqs))
		}
		descs := make([]V, 0, len(reqs))
		held := make([]heldExtraction, 0, len(reqs))
		for i, q := range reqs {
			tid, _ := projReq(q.Request)
			tids = append(tids, I(tid))
			bytes := q.Bytes()
			tcp := target%2 == 0
			seed := devSeed(ms, q.ServerAddress, q.UnitID)
			_, _, qty := deviceReply(tcp, seed, bytes, -1)
			k := -1
			if (kmode == 2 || i == which) && qty > 1 {
				k = 1 + r.intn(qty-1)
				if r.intn(40) == 0 {
					k = 0
				}
			}
			if kmode == 3 && i == kreq {
				k = kfix
			}
			ks = append(ks, I(k))
			reply, s, qq := deviceReply(tcp, seed, bytes, k)
			var resp packet.Response
			var perr error
			if tcp {
				resp, perr = packet.ParseTCPResponse(reply)
			} else {
				resp, perr = packet.ParseRTUResponseWithCRC(reply)
			}
			h := heldExtraction{head: []V{S(q.ServerAddress), I(int(q.UnitID)), I(s), I(qq)}, noResp: perr != nil}
			if perr == nil {
				h.run(q, resp)
			}
			held = append(held, h)
		}
		// the values are looked at only now: every result was held across all later extractions
		for _, h := range held {
			descs = append(descs, vList(append(h.head, h.strict(fields), h.lenient(fields))))
		}
		return vOk(vList(descs))
	})
	emit("extract", L(I(target), fieldVals(fields), vList(tids), U(ms), vList(ks)), outcome)
}

func extractCorpus(r *rng) {
	for t := 4; t < 8; t++ {
		for _, fs := range siblingCorpus() {
			extractCase(r, t, fs, false, 0, 0, 0, 0)
			extractCase(r, t, fs, true, 5, 0, 0, 0)
		}
	}
	for t := 0; t < 8; t++ {
		single := modbus.FieldTypeUint16
		if t < 4 {
			single = modbus.FieldTypeCoil
		}
		// the ends of the address space (D13, D10(i)): own requests, correct values
		extractCase(r, t, []modbus.Field{mkField(0, "a", 1, 0, single, 0), mkField(1, "a", 1, 65535, single, 0)}, false, 7, 0, 0, 0)
		extractCase(r, t, []modbus.Field{mkField(0, "a", 1, 65532, modbus.FieldTypeUint64, 0), mkField(1, "a", 1, 65534, modbus.FieldTypeFloat32, 0),
			mkField(2, "a", 1, 65535, modbus.FieldTypeInt16, 0), mkField(3, "a", 1, 65530, modbus.FieldTypeString, 12)}, false, 9, 0, 0, 0)
		// a span that leaves the address space: the device refuses
		extractCase(r, t, []modbus.Field{mkField(0, "a", 1, 65535, modbus.FieldTypeUint32, 0)}, false, 7, 0, 0, 0)
		// all 14 types x all byte orders at one address, complete and truncated to every k
		for bo := 0; bo < 16; bo++ {
			fields := []modbus.Field{}
			for ty := 1; ty <= 14; ty++ {
				f := mkField(len(fields), "a_1", 2, uint16(100+ty%3), modbus.FieldType(ty), 7)
				f.ByteOrder = packet.ByteOrder(bo)
				f.Bit = uint8((ty*5 + bo) % 16)
				f.FromHighByte = bo%2 == 0
				fields = append(fields, f)
			}
			for ms := uint64(0); ms < 4; ms++ {
				extractCase(r, t, fields, false, ms, 0, 0, 0)
			}
			if bo < 2 {
				for k := 0; k <= 7; k++ {
					extractCase(r, t, fields, false, 1, 3, 0, k)
				}
			}
		}
		// every bit of a register; both bytes
		fields := []modbus.Field{}
		for b := 0; b < 16; b++ {
			f := mkField(len(fields), "a", 1, 300, modbus.FieldTypeBit, 0)
			f.Bit = uint8(b)
			fields = append(fields, f)
		}
		for _, ty := range []modbus.FieldType{modbus.FieldTypeByte, modbus.FieldTypeUint8, modbus.FieldTypeInt8} {
			for _, hi := range []bool{false, true} {
				f := mkField(len(fields), "a", 1, 300, ty, 0)
				f.FromHighByte = hi
				fields = append(fields, f)
			}
		}
		for ms := uint64(0); ms < 8; ms++ {
			extractCase(r, t, fields, true, ms, 0, 0, 0)
		}
		// strings of every length over the three kinds of memory; truncated to every k for one of them
		for l := 1; l <= 250; l++ {
			fs := []modbus.Field{mkField(0, "a", 1, 5000, modbus.FieldTypeString, uint8(l)), mkField(1, "a", 1, 5000, modbus.FieldTypeString, uint8(l))}
			fs[1].ByteOrder = packet.LittleEndian
			extractCase(r, t, fs, false, uint64(l), 0, 0, 0)
		}
		fs := []modbus.Field{mkField(0, "a", 1, 40, modbus.FieldTypeString, 9), mkField(1, "a", 1, 42, modbus.FieldTypeUint32, 0),
			mkField(2, "a", 1, 47, modbus.FieldTypeInt64, 0), mkField(3, "a", 1, 60, single, 0)}
		for k := 0; k <= 21; k++ {
			extractCase(r, t, fs, false, 3, 3, 0, k)
		}
	}
}

func streamExtract(seed uint64, thorough bool) {
	r := newRng(seed ^ 0xB05)
	extractCorpus(r)
	n := 15000
	if thorough {
		n = 200000
	}
	for i := 0; i < n; i++ {
		target := r.intn(8)
		if r.intn(4) != 0 {
			target = 4 + r.intn(4) // C05 is about the register functions
		}
		sc := genScenario(r)
		var cnt int
		switch r.intn(6) {
		case 0:
			cnt = 1 + r.intn(3)
		case 1:
			cnt = 30 + r.intn(11)
		default:
			cnt = 1 + r.intn(24)
		}
		coilShare := 10
		if target < 4 {
			coilShare = 85
		}
		fields := genFields(r, sc, cnt, coilShare, r.intn(20) == 0)
		if r.intn(3) != 0 {
			fields = addSiblings(r, fields, 25)
		}
		if r.intn(40) == 0 {
			mutateInvalid(r, fields)
		}
		kmode := 0
		switch r.intn(10) {
		case 0, 1:
			kmode = 1
		case 2:
			kmode = 2
		}
		ms := uint64(r.intn(65536))
		if target >= 4 && r.intn(25) == 0 { // long text strings, several per request and per device
			fields = genLongStrings(r, sc)
			ms = textSeed(r, fields[0].ServerAddress, fields[0].UnitID)
		}
		extractCase(r, target, fields, r.intn(3) == 0, ms, kmode, 0, 0)
	}
}
