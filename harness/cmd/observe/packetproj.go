package main

// Projections of packet-layer values and the table of parse entry points (codes shared with
// coq/DispPacket.v, parse_any).

import (
	"errors"
	"fmt"
	"reflect"

	"github.com/aldas/go-modbus-client/packet"
)

func projReqCore(fc uint8, r interface{}) V {
	switch q := r.(type) {
	case packet.ReadCoilsRequest:
		return L(I(1), I(int(q.UnitID)), I(int(q.StartAddress)), I(int(q.Quantity)))
	case packet.ReadDiscreteInputsRequest:
		return L(I(2), I(int(q.UnitID)), I(int(q.StartAddress)), I(int(q.Quantity)))
	case packet.ReadHoldingRegistersRequest:
		return L(I(3), I(int(q.UnitID)), I(int(q.StartAddress)), I(int(q.Quantity)))
	case packet.ReadInputRegistersRequest:
		return L(I(4), I(int(q.UnitID)), I(int(q.StartAddress)), I(int(q.Quantity)))
	case packet.WriteSingleCoilRequest:
		return L(I(5), I(int(q.UnitID)), I(int(q.Address)), Bool(q.CoilState))
	case packet.WriteSingleRegisterRequest:
		return L(I(6), I(int(q.UnitID)), I(int(q.Address)), B(q.Data[:]))
	case packet.WriteMultipleCoilsRequest:
		return L(I(15), I(int(q.UnitID)), I(int(q.StartAddress)), I(int(q.CoilCount)), B(q.Data))
	case packet.WriteMultipleRegistersRequest:
		return L(I(16), I(int(q.UnitID)), I(int(q.StartAddress)), I(int(q.RegisterCount)), B(q.Data))
	case packet.ReadServerIDRequest:
		return L(I(17), I(int(q.UnitID)))
	case packet.ReadWriteMultipleRegistersRequest:
		return L(I(23), I(int(q.UnitID)), I(int(q.ReadStartAddress)), I(int(q.ReadQuantity)),
			I(int(q.WriteStartAddress)), I(int(q.WriteQuantity)), B(q.WriteData))
	}
	panic("projReqCore: unknown type")
}

// projReq returns (transaction id, projected request)
func projReq(r packet.Request) (int, V) {
	switch q := r.(type) {
	case *packet.ReadCoilsRequestTCP:
		return int(q.TransactionID), projReqCore(1, q.ReadCoilsRequest)
	case *packet.ReadCoilsRequestRTU:
		return 0, projReqCore(1, q.ReadCoilsRequest)
	case *packet.ReadDiscreteInputsRequestTCP:
		return int(q.TransactionID), projReqCore(2, q.ReadDiscreteInputsRequest)
	case *packet.ReadDiscreteInputsRequestRTU:
		return 0, projReqCore(2, q.ReadDiscreteInputsRequest)
	case *packet.ReadHoldingRegistersRequestTCP:
		return int(q.TransactionID), projReqCore(3, q.ReadHoldingRegistersRequest)
	case *packet.ReadHoldingRegistersRequestRTU:
		return 0, projReqCore(3, q.ReadHoldingRegistersRequest)
	case *packet.ReadInputRegistersRequestTCP:
		return int(q.TransactionID), projReqCore(4, q.ReadInputRegistersRequest)
	case *packet.ReadInputRegistersRequestRTU:
		return 0, projReqCore(4, q.ReadInputRegistersRequest)
	case *packet.WriteSingleCoilRequestTCP:
		return int(q.TransactionID), projReqCore(5, q.WriteSingleCoilRequest)
	case *packet.WriteSingleCoilRequestRTU:
		return 0, projReqCore(5, q.WriteSingleCoilRequest)
	case *packet.WriteSingleRegisterRequestTCP:
		return int(q.TransactionID), projReqCore(6, q.WriteSingleRegisterRequest)
	case *packet.WriteSingleRegisterRequestRTU:
		return 0, projReqCore(6, q.WriteSingleRegisterRequest)
	case *packet.WriteMultipleCoilsRequestTCP:
		return int(q.TransactionID), projReqCore(15, q.WriteMultipleCoilsRequest)
	case *packet.WriteMultipleCoilsRequestRTU:
		return 0, projReqCore(15, q.WriteMultipleCoilsRequest)
	case *packet.WriteMultipleRegistersRequestTCP:
		return int(q.TransactionID), projReqCore(16, q.WriteMultipleRegistersRequest)
	case *packet.WriteMultipleRegistersRequestRTU:
		return 0, projReqCore(16, q.WriteMultipleRegistersRequest)
	case *packet.ReadServerIDRequestTCP:
		return int(q.TransactionID), projReqCore(17, q.ReadServerIDRequest)
	case *packet.ReadServerIDRequestRTU:
		return 0, projReqCore(17, q.ReadServerIDRequest)
	case *packet.ReadWriteMultipleRegistersRequestTCP:
		return int(q.TransactionID), projReqCore(23, q.ReadWriteMultipleRegistersRequest)
	case *packet.ReadWriteMultipleRegistersRequestRTU:
		return 0, projReqCore(23, q.ReadWriteMultipleRegistersRequest)
	}
	panic("projReq: unknown type")
}

// projResp returns (transaction id, projected response, may be re-encoded)
func projResp(r packet.Response) (int, V, bool) {
	switch q := r.(type) {
	case *packet.ReadCoilsResponseTCP:
		return int(q.TransactionID), L(I(1), I(int(q.UnitID)), I(int(q.CoilsByteLength)), B(q.Data)), true
	case *packet.ReadCoilsResponseRTU:
		return 0, L(I(1), I(int(q.UnitID)), I(int(q.CoilsByteLength)), B(q.Data)), true
	case *packet.ReadDiscreteInputsResponseTCP:
		return int(q.TransactionID), L(I(2), I(int(q.UnitID)), I(int(q.InputsByteLength)), B(q.Data)), true
	case *packet.ReadDiscreteInputsResponseRTU:
		return 0, L(I(2), I(int(q.UnitID)), I(int(q.InputsByteLength)), B(q.Data)), true
	case *packet.ReadHoldingRegistersResponseTCP:
		return int(q.TransactionID), L(I(3), I(int(q.UnitID)), I(int(q.RegisterByteLen)), B(q.Data)), true
	case *packet.ReadHoldingRegistersResponseRTU:
		return 0, L(I(3), I(int(q.UnitID)), I(int(q.RegisterByteLen)), B(q.Data)), true
	case *packet.ReadInputRegistersResponseTCP:
		return int(q.TransactionID), L(I(4), I(int(q.UnitID)), I(int(q.RegisterByteLen)), B(q.Data)), true
	case *packet.ReadInputRegistersResponseRTU:
		return 0, L(I(4), I(int(q.UnitID)), I(int(q.RegisterByteLen)), B(q.Data)), true
	case *packet.ReadWriteMultipleRegistersResponseTCP:
		return int(q.TransactionID), L(I(23), I(int(q.UnitID)), I(int(q.RegisterByteLen)), B(q.Data)), true
	case *packet.ReadWriteMultipleRegistersResponseRTU:
		return 0, L(I(23), I(int(q.UnitID)), I(int(q.RegisterByteLen)), B(q.Data)), true
	case *packet.WriteSingleCoilResponseTCP:
		return int(q.TransactionID), L(I(5), I(int(q.UnitID)), I(int(q.StartAddress)), Bool(q.CoilState)), true
	case *packet.WriteSingleCoilResponseRTU:
		return 0, L(I(5), I(int(q.UnitID)), I(int(q.StartAddress)), Bool(q.CoilState)), true
	case *packet.WriteSingleRegisterResponseTCP:
		return int(q.TransactionID), L(I(6), I(int(q.UnitID)), I(int(q.Address)), B(q.Data[:])), true
	case *packet.WriteSingleRegisterResponseRTU:
		return 0, L(I(6), I(int(q.UnitID)), I(int(q.Address)), B(q.Data[:])), true
	case *packet.WriteMultipleCoilsResponseTCP:
		return int(q.TransactionID), L(I(15), I(int(q.UnitID)), I(int(q.StartAddress)), I(int(q.CoilCount))), true
	case *packet.WriteMultipleCoilsResponseRTU:
		return 0, L(I(15), I(int(q.UnitID)), I(int(q.StartAddress)), I(int(q.CoilCount))), true
	case *packet.WriteMultipleRegistersResponseTCP:
		return int(q.TransactionID), L(I(16), I(int(q.UnitID)), I(int(q.StartAddress)), I(int(q.RegisterCount))), true
	case *packet.WriteMultipleRegistersResponseRTU:
		return 0, L(I(16), I(int(q.UnitID)), I(int(q.StartAddress)), I(int(q.RegisterCount))), true
	case *packet.ReadServerIDResponseTCP:
		return int(q.TransactionID), L(I(17), I(int(q.UnitID)), I(int(q.Status)), B(q.ServerID), B(q.AdditionalData)), len(q.ServerID) <= 251
	case *packet.ReadServerIDResponseRTU:
		return 0, L(I(17), I(int(q.UnitID)), I(int(q.Status)), B(q.ServerID), B(q.AdditionalData)), len(q.ServerID) <= 251
	}
	panic("projResp: unknown type")
}

// projErrTail: the classification of an error (after the outcome tag and the nil flag)
func projErrTail(err error) []V {
	if err == error(packet.ErrTCPDataTooShort) {
		return []V{I(10)}
	}
	if err == error(packet.ErrIsNotTCPPacket) {
		return []V{I(11)}
	}
	switch e := err.(type) {
	case *packet.ErrorParseTCP:
		return []V{I(1), I(int(e.Packet.TransactionID)), I(int(e.Packet.UnitID)), I(int(e.Packet.Function)), I(int(e.Packet.Code))}
	case *packet.ErrorParseRTU:
		return []V{I(2), I(int(e.Packet.UnitID)), I(int(e.Packet.Function)), I(int(e.Packet.Code))}
	case *packet.ErrorResponseTCP:
		return []V{I(3), I(int(e.TransactionID)), I(int(e.UnitID)), I(int(e.Function)), I(int(e.Code))}
	case *packet.ErrorResponseRTU:
		return []V{I(4), I(int(e.UnitID)), I(int(e.Function)), I(int(e.Code))}
	}
	if errors.Is(err, packet.ErrInvalidCRC) {
		return []V{I(5)}
	}
	return []V{I(0)}
}

func isNilValue(v interface{}) bool {
	if v == nil {
		return true
	}
	rv := reflect.ValueOf(v)
	switch rv.Kind() {
	case reflect.Ptr, reflect.Slice, reflect.Map, reflect.Interface, reflect.Func, reflect.Chan:
		return rv.IsNil()
	}
	return false
}

func outErr(val interface{}, err error) V {
	return vErr(append([]V{Bool(isNilValue(val))}, projErrTail(err)...)...)
}

// curInput is the buffer handed to the request parser that is running (nil otherwise): a decoded
// request must not alias it (the request parsers copy their payloads), so the buffer is overwritten
// before the decoded value is looked at
var curInput []byte

func scribble() {
	if curInput != nil {
		b := curInput[:cap(curInput)]
		for i := range b {
			b[i] ^= 0xA5
		}
		curInput = nil
	}
}

func outReq(r packet.Request, err error) V {
	if err != nil {
		return outErr(r, err)
	}
	scribble()
	looked(r)
	tid, p := projReq(r)
	return vOk(I(tid), p, B(r.Bytes()))
}

// looked: every third value is printed (the way a caller logs it) before it is used: formatting a
// request, a response or an error is a diagnostic and must not change what it encodes to or answers
var lookCount int

func looked(x interface{}) {
	lookCount++
	if lookCount%3 != 0 || x == nil {
		return
	}
	func() {
		defer func() { _ = recover() }() // a panicking String method shows up in the value's later use or not at all
		_ = fmt.Sprintf("%v|%+v|%s", x, x, x)
		if rv := reflect.ValueOf(x); rv.Kind() == reflect.Ptr && !rv.IsNil() {
			_ = fmt.Sprint(rv.Elem().Interface())
		}
	}()
}

func outResp(r packet.Response, err error) V {
	if err != nil {
		return outErr(r, err)
	}
	looked(r)
	tid, p, re := projResp(r)
	if re {
		return vOk(I(tid), p, B(r.Bytes()))
	}
	return vOk(I(tid), p, B(nil))
}

// parseAny runs the parse entry point with the given code (see coq/DispPacket.v)
func parseAny(which int, d []byte) V {
	curInput = nil
	if which < 300 { // request parsers and request dispatchers
		curInput = d
	}
	return guard(func() V {
		switch which {
		case 1:
			r, err := packet.ParseReadCoilsRequestTCP(d)
			if err != nil {
				return outErr(r, err)
			}
			return outReq(r, nil)
		case 2:
			r, err := packet.ParseReadDiscreteInputsRequestTCP(d)
			if err != nil {
				return outErr(r, err)
			}
			return outReq(r, nil)
		case 3:
			r, err := packet.ParseReadHoldingRegistersRequestTCP(d)
			if err != nil {
				return outErr(r, err)
			}
			return outReq(r, nil)
		case 4:
			r, err := packet.ParseReadInputRegistersRequestTCP(d)
			if err != nil {
				return outErr(r, err)
			}
			return outReq(r, nil)
		case 5:
			r, err := packet.ParseWriteSingleCoilRequestTCP(d)
			if err != nil {
				return outErr(r, err)
			}
			return outReq(r, nil)
		case 6:
			r, err := packet.ParseWriteSingleRegisterRequestTCP(d)
			if err != nil {
				return outErr(r, err)
			}
			return outReq(r, nil)
		case 15:
			r, err := packet.ParseWriteMultipleCoilsRequestTCP(d)
			if err != nil {
				return outErr(r, err)
			}
			return outReq(r, nil)
		case 16:
			r, err := packet.ParseWriteMultipleRegistersRequestTCP(d)
			if err != nil {
				return outErr(r, err)
			}
			return outReq(r, nil)
		case 17:
			r, err := packet.ParseReadServerIDRequestTCP(d)
			if err != nil {
				return outErr(r, err)
			}
			return outReq(r, nil)
		case 23:
			r, err := packet.ParseReadWriteMultipleRegistersRequestTCP(d)
			if err != nil {
				return outErr(r, err)
			}
			return outReq(r, nil)
		case 101:
			r, err := packet.ParseReadCoilsRequestRTU(d)
			if err != nil {
				return outErr(r, err)
			}
			return outReq(r, nil)
		case 102:
			r, err := packet.ParseReadDiscreteInputsRequestRTU(d)
			if err != nil {
				return outErr(r, err)
			}
			return outReq(r, nil)
		case 103:
			r, err := packet.ParseReadHoldingRegistersRequestRTU(d)
			if err != nil {
				return outErr(r, err)
			}
			return outReq(r, nil)
		case 104:
			r, err := packet.ParseReadInputRegistersRequestRTU(d)
			if err != nil {
				return outErr(r, err)
			}
			return outReq(r, nil)
		case 105:
			r, err := packet.ParseWriteSingleCoilRequestRTU(d)
			if err != nil {
				return outErr(r, err)
			}
			return outReq(r, nil)
		case 106:
			r, err := packet.ParseWriteSingleRegisterRequestRTU(d)
			if err != nil {
				return outErr(r, err)
			}
			return outReq(r, nil)
		case 115:
			r, err := packet.ParseWriteMultipleCoilsRequestRTU(d)
			if err != nil {
				return outErr(r, err)
			}
			return outReq(r, nil)
		case 116:
			r, err := packet.ParseWriteMultipleRegistersRequestRTU(d)
			if err != nil {
				return outErr(r, err)
			}
			return outReq(r, nil)
		case 117:
			r, err := packet.ParseReadServerIDRequestRTU(d)
			if err != nil {
				return outErr(r, err)
			}
			return outReq(r, nil)
		case 123:
			r, err := packet.ParseReadWriteMultipleRegistersRequestRTU(d)
			if err != nil {
				return outErr(r, err)
			}
			return outReq(r, nil)
		case 200:
			r, err := packet.ParseTCPRequest(d)
			return outReq(r, err)
		case 201:
			r, err := packet.ParseRTURequest(d)
			return outReq(r, err)
		case 202:
			// declared to return a Response; the value is a request packet
			r, err := packet.ParseRTURequestWithCRC(d)
			if err != nil {
				return outErr(r, err)
			}
			return outReq(r.(packet.Request), nil)
		case 300:
			r, err := packet.ParseTCPResponse(d)
			return outResp(r, err)
		case 301:
			r, err := packet.ParseRTUResponse(d)
			return outResp(r, err)
		case 302:
			r, err := packet.ParseRTUResponseWithCRC(d)
			return outResp(r, err)
		case 400:
			h, err := packet.ParseMBAPHeader(d)
			if err != nil {
				// the value is a struct, not a pointer: it must be the zero header
				return vErr(append([]V{Bool(h == packet.MBAPHeader{})}, projErrTail(err)...)...)
			}
			return vOk(I(int(h.TransactionID)))
		case 401, 402:
			n, err := packet.LooksLikeModbusTCP(d, which == 402)
			if err != nil {
				return vOk(I(n), L(projErrTail(err)...))
			}
			return vOk(I(n), L())
		case 403:
			err := packet.AsTCPErrorPacket(d)
			if err != nil {
				return vErr(projErrTail(err)...)
			}
			return vOk()
		case 404:
			err := packet.AsRTUErrorPacket(d)
			if err != nil {
				return vErr(projErrTail(err)...)
			}
			return vOk()
		case 405:
			err := packet.AsRTUErrorPacketWithCRC(d)
			if err != nil {
				return vErr(projErrTail(err)...)
			}
			return vOk()
		case 1001:
			r, err := packet.ParseReadCoilsResponseTCP(d)
			if err != nil {
				return outErr(r, err)
			}
			return outResp(r, nil)
		case 1002:
			r, err := packet.ParseReadDiscreteInputsResponseTCP(d)
			if err != nil {
				return outErr(r, err)
			}
			return outResp(r, nil)
		case 1003:
			r, err := packet.ParseReadHoldingRegistersResponseTCP(d)
			if err != nil {
				return outErr(r, err)
			}
			return outResp(r, nil)
		case 1004:
			r, err := packet.ParseReadInputRegistersResponseTCP(d)
			if err != nil {
				return outErr(r, err)
			}
			return outResp(r, nil)
		case 1005:
			r, err := packet.ParseWriteSingleCoilResponseTCP(d)
			if err != nil {
				return outErr(r, err)
			}
			return outResp(r, nil)
		case 1006:
			r, err := packet.ParseWriteSingleRegisterResponseTCP(d)
			if err != nil {
				return outErr(r, err)
			}
			return outResp(r, nil)
		case 1015:
			r, err := packet.ParseWriteMultipleCoilsResponseTCP(d)
			if err != nil {
				return outErr(r, err)
			}
			return outResp(r, nil)
		case 1016:
			r, err := packet.ParseWriteMultipleRegistersResponseTCP(d)
			if err != nil {
				return outErr(r, err)
			}
			return outResp(r, nil)
		case 1017:
			r, err := packet.ParseReadServerIDResponseTCP(d)
			if err != nil {
				return outErr(r, err)
			}
			return outResp(r, nil)
		case 1023:
			r, err := packet.ParseReadWriteMultipleRegistersResponseTCP(d)
			if err != nil {
				return outErr(r, err)
			}
			return outResp(r, nil)
		case 1101:
			r, err := packet.ParseReadCoilsResponseRTU(d)
			if err != nil {
				return outErr(r, err)
			}
			return outResp(r, nil)
		case 1102:
			r, err := packet.ParseReadDiscreteInputsResponseRTU(d)
			if err != nil {
				return outErr(r, err)
			}
			return outResp(r, nil)
		case 1103:
			r, err := packet.ParseReadHoldingRegistersResponseRTU(d)
			if err != nil {
				return outErr(r, err)
			}
			return outResp(r, nil)
		case 1104:
			r, err := packet.ParseReadInputRegistersResponseRTU(d)
			if err != nil {
				return outErr(r, err)
			}
			return outResp(r, nil)
		case 1105:
			r, err := packet.ParseWriteSingleCoilResponseRTU(d)
			if err != nil {
				return outErr(r, err)
			}
			return outResp(r, nil)
		case 1106:
			r, err := packet.ParseWriteSingleRegisterResponseRTU(d)
			if err != nil {
				return outErr(r, err)
			}
			return outResp(r, nil)
		case 1115:
			r, err := packet.ParseWriteMultipleCoilsResponseRTU(d)
			if err != nil {
				return outErr(r, err)
			}
			return outResp(r, nil)
		case 1116:
			r, err := packet.ParseWriteMultipleRegistersResponseRTU(d)
			if err != nil {
				return outErr(r, err)
			}
			return outResp(r, nil)
		case 1117:
			r, err := packet.ParseReadServerIDResponseRTU(d)
			if err != nil {
				return outErr(r, err)
			}
			return outResp(r, nil)
		case 1123:
			r, err := packet.ParseReadWriteMultipleRegistersResponseRTU(d)
			if err != nil {
				return outErr(r, err)
			}
			return outResp(r, nil)
		}
		panic("parseAny: unknown code")
	})
}

var fcs = []int{1, 2, 3, 4, 5, 6, 15, 16, 17, 23}

var allParseCodes = func() []int {
	var c []int
	for _, fc := range fcs {
		c = append(c, fc, 100+fc, 1000+fc, 1100+fc)
	}
	return append(c, 200, 201, 202, 300, 301, 302, 400, 401, 402, 403, 404, 405)
}()

// withCap returns a slice with the given visible bytes and the given stale bytes behind its length
func withCap(vis, spare []byte) []byte {
	buf := make([]byte, len(vis)+len(spare))
	copy(buf, vis)
	copy(buf[len(vis):], spare)
	return buf[:len(vis):len(buf)]
}

// sentinelState: the package-level sentinel errors are shared by all calls; no parser may write
// into them (a result must depend on its input only)
func sentinelState() V {
	p := func(e *packet.ErrorParseTCP) V {
		return L(I(int(e.Packet.TransactionID)), I(int(e.Packet.UnitID)), I(int(e.Packet.Function)), I(int(e.Packet.Code)), B(e.Bytes()))
	}
	return L(p(packet.ErrTCPDataTooShort), p(packet.ErrIsNotTCPPacket))
}
