From Coq Require Import List NArith ZArith Lia Bool ZifyBool ZifyN ZifyNat.
Import ListNotations.
Require Import GoSem.
Open Scope N_scope.

(* ---- model of packet.Registers: pinned (uint16 bounds) and repaired (uint32/int bounds) ---- *)
Inductive variant := Pinned | Repaired.
Record regs := { order : N; start : N; endA : N; data : slice }.

Definition new_registers (v : variant) (d : slice) (st : N) : option regs :=
  let n := N.of_nat (slen d) in
  if n <? 2 then None else if negb (n mod 2 =? 0) then None else
  Some {| order := 9 (* BigEndian|HighWordFirst *); start := st;
          endA := match v with Pinned => (st + (n / 2) mod 65536) mod 65536 | Repaired => st + n / 2 end;
          data := d |}.

Inductive rerr := Under | Over.
(* doubleRegister *)
Definition double_register (v : variant) (r : regs) (addr : N) (bo : N) : res rerr (list N) :=
  if addr <? start r then Err Under else
  let over := match v with
              | Pinned => (endA r + 65536 - 2) mod 65536 <? addr       (* address > endAddress - 2 in uint16 *)
              | Repaired => endA r <? addr + 2
              end in
  if over then Err Over else
  let si := match v with
            | Pinned => N.to_nat (((addr + 65536 - start r) mod 65536 * 2) mod 65536)
            | Repaired => N.to_nat ((addr - start r) * 2)
            end in
  if negb (N.land bo 4 =? 0) then
    let* b2 := idx (data r) (si + 2) in let* b3 := idx (data r) (si + 3) in
    let* b0 := idx (data r) si in let* b1 := idx (data r) (si + 1) in
    Ok [b2; b3; b0; b1]
  else sub (data r) si (si + 4).

Definition be32 (l : list N) : N := match l with [a;b;c;d] => ((a*256+b)*256+c)*256+d | _ => 0 end.
Definition le32 (l : list N) : N := match l with [a;b;c;d] => ((d*256+c)*256+b)*256+a | _ => 0 end.
Definition uint32_bo (v : variant) (r : regs) (addr bo : N) : res rerr N :=
  let bo := if bo =? 0 then order r else bo in
  let* b := double_register v r addr bo in
  Ok (if negb (N.land bo 2 =? 0) then le32 b else be32 b).

(* ---- specification: the value is determined by the four wire bytes of registers addr, addr+1 ---- *)
Definition spec_uint32 (payload : list N) (st addr bo : N) : option N :=
  let count := N.of_nat (length payload) / 2 in
  if (st <=? addr) && (addr + 2 <=? st + count) then
    let o := N.to_nat (2 * (addr - st)) in
    let w := firstn 4 (skipn o payload) in
    let w' := if negb (N.land bo 4 =? 0) then (skipn 2 w ++ firstn 2 w) else w in
    Some (if negb (N.land bo 2 =? 0) then le32 w' else be32 w')
  else None.

(* ---- the pinned code violates the property in the three ways found by probing ---- *)
Example pinned_window_end_wrap :
  exists r, new_registers Pinned {| vis := [1;2;3;4]; spare := [] |} 65534 = Some r /\
            uint32_bo Pinned r 65534 0 = Ok 0x01020304.   (* this one happens to work ... *)
Proof. eexists. split; [reflexivity|vm_compute; reflexivity]. Qed.
Example pinned_small_window_reads_spare :
  exists r, new_registers Pinned {| vis := [1;2]; spare := [0xAA;0xBB] |} 0 = Some r /\
            uint32_bo Pinned r 0 0 = Ok 0x0102AABB.        (* ... but a 1-register window leaks spare bytes *)
Proof. eexists. split; [reflexivity|vm_compute; reflexivity]. Qed.
Example pinned_small_window_panics :
  exists r, new_registers Pinned {| vis := [1;2]; spare := [] |} 0 = Some r /\ uint32_bo Pinned r 0 0 = Panic.
Proof. eexists. split; [reflexivity|vm_compute; reflexivity]. Qed.

(* ---- the repaired code meets the specification for every window, address and byte order ---- *)
Lemma idx_ok {E} d i : (i < slen d)%nat -> @idx E d i = Ok (nth i (vis d) 0).
Proof.
  unfold idx, slen. intros H. destruct (nth_error (vis d) i) eqn:E1.
  - f_equal. symmetry. apply nth_error_nth. exact E1.
  - apply nth_error_None in E1. lia.
Qed.
Lemma sub_in {E} d i j : (i <= j)%nat -> (j <= slen d)%nat ->
  @sub E d i j = Ok (firstn (j - i) (skipn i (vis d))).
Proof.
  unfold sub, scap, slen. intros H1 H2.
  replace ((i <=? j)%nat && (j <=? length (vis d) + length (spare d))%nat) with true by lia.
  f_equal. rewrite skipn_app, firstn_app, skipn_length.
  replace (j - i - (length (vis d) - i))%nat with 0%nat by lia.
  rewrite firstn_O, app_nil_r. reflexivity.
Qed.
Lemma firstn4_skipn l o : (o + 4 <= length l)%nat ->
  firstn 4 (skipn o l) = [nth o l 0; nth (o+1) l 0; nth (o+2) l 0; nth (o+3) l 0].
Proof.
  revert o. induction l as [|x l IH]; intros o H; [exfalso; cbn in H; lia|].
  destruct o as [|o].
  - cbn [skipn]. do 3 (destruct l as [|? l]; [exfalso; cbn in H; lia|]). reflexivity.
  - cbn [skipn]. rewrite IH by (cbn in H; lia). reflexivity.
Qed.

Theorem repaired_uint32_spec : forall d st addr bo r,
  st + N.of_nat (slen d) / 2 <= 65536 -> addr < 65536 ->
  new_registers Repaired d st = Some r ->
  uint32_bo Repaired r addr bo =
    match spec_uint32 (vis d) st addr (if bo =? 0 then 9 else bo) with
    | Some x => Ok x
    | None => match uint32_bo Repaired r addr bo with Err e => Err e | _ => Panic end
    end.
Proof.
  intros d st addr bo r Hwin Haddr Hnew.
  unfold new_registers in Hnew.
  destruct (N.of_nat (slen d) <? 2) eqn:E2; [discriminate|].
  destruct (negb (N.of_nat (slen d) mod 2 =? 0)) eqn:Eeven; [discriminate|].
  inversion Hnew; subst r; clear Hnew.
  unfold uint32_bo, spec_uint32, double_register. cbn [order start endA data].
  set (bo' := if bo =? 0 then 9 else bo).
  change (length (vis d)) with (slen d).
  destruct (addr <? st) eqn:Elt.
  - replace ((st <=? addr) && (addr + 2 <=? st + N.of_nat (slen d) / 2)) with false by lia. reflexivity.
  - destruct (st + N.of_nat (slen d) / 2 <? addr + 2) eqn:Eov.
    + replace ((st <=? addr) && (addr + 2 <=? st + N.of_nat (slen d) / 2)) with false by lia. reflexivity.
    + replace ((st <=? addr) && (addr + 2 <=? st + N.of_nat (slen d) / 2)) with true by lia.
      assert (Hfit : (N.to_nat ((addr - st) * 2) + 4 <= slen d)%nat) by lia.
      replace (N.to_nat (2 * (addr - st))) with (N.to_nat ((addr - st) * 2)) by lia.
      set (si := N.to_nat ((addr - st) * 2)) in *.
      rewrite firstn4_skipn by (unfold slen in Hfit; lia).
      destruct (negb (N.land bo' 4 =? 0)) eqn:Elw.
      * rewrite !idx_ok by lia. cbn [bind firstn skipn app].
        replace (si + 1)%nat with (S si) by lia. replace (si + 2)%nat with (S (S si)) by lia.
        replace (si + 3)%nat with (S (S (S si))) by lia. reflexivity.
      * rewrite sub_in by lia. cbn [bind]. replace (si + 4 - si)%nat with 4%nat by lia.
        rewrite firstn4_skipn by (unfold slen in Hfit; lia). reflexivity.
Qed.
Print Assumptions repaired_uint32_spec.
