From Coq Require Import List NArith ZArith Lia Bool ZifyBool ZifyN ZifyNat.
Import ListNotations.
Require Import GoSem.
Open Scope N_scope.

Record exc := { e_tid : N; e_unit : N; e_fc : N; e_code : N }.
Record mbap := { tid : N }.
Record rdreq := { hdr : mbap; unit_ : N; start : N; qty : N }.

Definition parse_mbap (d : slice) : res exc mbap :=
  if (slen d <? 6)%nat then Err {| e_tid:=0; e_unit:=0; e_fc:=0; e_code:=4 |} else
  let* b2 := idx d 2 in let* b3 := idx d 3 in
  if negb (b2 =? 0) || negb (b3 =? 0) then Err {| e_tid:=0; e_unit:=0; e_fc:=0; e_code:=4 |} else
  let* l := sub d 4 6 in
  let pdu := be16 l in
  if pdu =? 0 then Err {| e_tid:=0; e_unit:=0; e_fc:=0; e_code:=4 |} else
  if negb (N.of_nat (slen d) =? 6 + pdu) then Err {| e_tid:=0; e_unit:=0; e_fc:=0; e_code:=4 |} else
  let* t := sub d 0 2 in Ok {| tid := be16 t |}.

(* faithful to the pinned code: no length guard before data[7], data[10:12] *)
Definition parse_fc3_tcp (d : slice) : res exc rdreq :=
  let* h := parse_mbap d in
  let* u := idx d 6 in
  let* f := idx d 7 in
  if negb (f =? 3) then Err {| e_tid:=tid h; e_unit:=u; e_fc:=3; e_code:=1 |} else
  let* ql := sub d 10 12 in
  let q := be16 ql in
  if negb ((1 <=? q) && (q <=? 125)) then Err {| e_tid:=tid h; e_unit:=u; e_fc:=3; e_code:=3 |} else
  let* sl := sub d 8 10 in
  Ok {| hdr := h; unit_ := u; start := be16 sl; qty := q |}.

(* the repaired variant *)
Definition parse_fc3_tcp_fixed (d : slice) : res exc rdreq :=
  let* h := parse_mbap d in
  if (slen d <? 12)%nat then
    let* u := idx d 6 in Err {| e_tid:=tid h; e_unit:=u; e_fc:=3; e_code:=3 |} else
  let* u := idx d 6 in
  let* f := idx d 7 in
  if negb (f =? 3) then Err {| e_tid:=tid h; e_unit:=u; e_fc:=3; e_code:=1 |} else
  let* ql := sub d 10 12 in
  let q := be16 ql in
  if negb ((1 <=? q) && (q <=? 125)) then Err {| e_tid:=tid h; e_unit:=u; e_fc:=3; e_code:=3 |} else
  let* sl := sub d 8 10 in
  Ok {| hdr := h; unit_ := u; start := be16 sl; qty := q |}.

Definition enc_fc3_tcp (r : rdreq) : list N :=
  put16 (tid (hdr r)) ++ [0;0] ++ put16 6 ++ [unit_ r; 3] ++ put16 (start r) ++ put16 (qty r).

(* refutation of no-panic on the pinned code *)
Lemma fc3_panics : exists d, parse_fc3_tcp d = Panic.
Proof. exists {| vis := [0;1;0;0;0;2;1;3]; spare := [] |}. vm_compute. reflexivity. Qed.
Lemma fc3_overreads : exists v s1 s2, parse_fc3_tcp {|vis:=v;spare:=s1|} <> parse_fc3_tcp {|vis:=v;spare:=s2|}.
Proof. exists [0;1;0;0;0;2;1;3], [0;0;0;1], [0;0;0;2]. vm_compute. discriminate. Qed.

(* helper lemmas *)
Lemma idx_lt {E} d i : (i < slen d)%nat -> exists b, @idx E d i = Ok b /\ nth_error (vis d) i = Some b.
Proof.
  unfold idx, slen. intros H. destruct (nth_error (vis d) i) eqn:E1.
  - eauto.
  - apply nth_error_None in E1. lia.
Qed.
Lemma sub_in {E} d i j : (i <= j)%nat -> (j <= slen d)%nat ->
  @sub E d i j = Ok (firstn (j - i) (skipn i (vis d))).
Proof.
  unfold sub, scap, slen. intros H1 H2.
  replace ((i <=? j)%nat && (j <=? length (vis d) + length (spare d))%nat) with true by lia.
  f_equal. rewrite skipn_app, firstn_app.
  rewrite skipn_length.
  replace (j - i - (length (vis d) - i))%nat with 0%nat by lia.
  rewrite firstn_O, app_nil_r. reflexivity.
Qed.

Ltac step :=
  match goal with
  | |- context [@idx ?E ?d ?i] =>
      let b := fresh "b" in let Hb := fresh "Hb" in let Hn := fresh "Hn" in
      destruct (@idx_lt E d i) as [b [Hb Hn]]; [lia|]; rewrite Hb; cbn [bind]
  | |- context [@sub ?E ?d ?i ?j] => rewrite (@sub_in E d i j) by lia; cbn [bind]
  | |- context [if ?c then _ else _] => destruct c eqn:?
  end.

Lemma mbap_total d : parse_mbap d <> Panic /\
   (forall h, parse_mbap d = Ok h -> (7 <= slen d)%nat).
Proof.
  unfold parse_mbap.
  destruct (slen d <? 6)%nat eqn:E0; [split; [discriminate|intros; discriminate]|].
  repeat step; try (split; [discriminate|intros; discriminate]).
  split; [discriminate|]. intros h _.
  lia.
Qed.

Theorem fc3_fixed_no_panic d : parse_fc3_tcp_fixed d <> Panic.
Proof.
  unfold parse_fc3_tcp_fixed.
  destruct (mbap_total d) as [Hp Hl].
  destruct (parse_mbap d) as [h| |] eqn:Eh; cbn [bind]; try discriminate; [|contradiction].
  specialize (Hl h eq_refl).
  repeat step; discriminate.
Qed.


Definition trim (d : slice) : slice := {| vis := vis d; spare := [] |}.
Lemma slen_trim d : slen (trim d) = slen d. Proof. reflexivity. Qed.
Lemma vis_trim d : vis (trim d) = vis d. Proof. reflexivity. Qed.
Lemma idx_trim {E} d i : @idx E (trim d) i = idx d i. Proof. reflexivity. Qed.

Ltac step2 :=
  match goal with
  | |- context [@idx ?E (trim ?d) ?i] => rewrite (@idx_trim E d i)
  | |- context [@idx ?E ?d ?i] =>
      let b := fresh "b" in let Hb := fresh "Hb" in let Hn := fresh "Hn" in
      destruct (@idx_lt E d i) as [b [Hb Hn]]; [lia|]; rewrite Hb; cbn [bind]
  | |- context [@sub ?E ?d ?i ?j] => rewrite (@sub_in E d i j) by (rewrite ?slen_trim; lia); rewrite ?vis_trim; cbn [bind]
  | |- context [if ?c then _ else _] => destruct c eqn:?
  end.

Lemma mbap_trim d : parse_mbap (trim d) = parse_mbap d.
Proof.
  unfold parse_mbap. rewrite slen_trim.
  destruct (slen d <? 6)%nat eqn:E0; [reflexivity|].
  repeat step2; reflexivity.
Qed.

Theorem fc3_fixed_trim d : parse_fc3_tcp_fixed (trim d) = parse_fc3_tcp_fixed d.
Proof.
  unfold parse_fc3_tcp_fixed. rewrite mbap_trim, slen_trim.
  destruct (mbap_total d) as [Hp Hl].
  destruct (parse_mbap d) as [h| |] eqn:Eh; cbn [bind]; try reflexivity.
  specialize (Hl h eq_refl).
  repeat step2; reflexivity.
Qed.

Theorem fc3_fixed_cap_indep v s1 s2 :
  parse_fc3_tcp_fixed {|vis:=v;spare:=s1|} = parse_fc3_tcp_fixed {|vis:=v;spare:=s2|}.
Proof.
  rewrite <- (fc3_fixed_trim {|vis:=v;spare:=s1|}), <- (fc3_fixed_trim {|vis:=v;spare:=s2|}). reflexivity.
Qed.

(* round trip *)
Lemma be16_put16 x : x < 65536 -> be16 (put16 x) = x.
Proof. unfold be16, put16. intros. lia. Qed.

Theorem fc3_roundtrip r s : tid (hdr r) < 65536 -> unit_ r < 256 -> start r < 65536 ->
  1 <= qty r <= 125 ->
  parse_fc3_tcp_fixed {| vis := enc_fc3_tcp r; spare := s |} = Ok r.
Proof.
  intros Ht Hu Hs Hq. destruct r as [[t] u st q]. cbn in *.
  unfold parse_fc3_tcp_fixed, parse_mbap, enc_fc3_tcp. cbn -[N.div N.modulo N.mul N.add N.eqb N.leb].
  unfold sub, scap. cbn -[N.div N.modulo N.mul N.add N.eqb N.leb].
  change (6 / 256) with 0. change (6 mod 256) with 6. cbn [N.mul N.add N.eqb N.of_nat Pos.of_succ_nat Pos.succ negb Pos.eqb].
  cbn -[N.div N.modulo N.mul N.add N.eqb N.leb].
  replace (q / 256 * 256 + q mod 256) with q by lia.
  replace (st / 256 * 256 + st mod 256) with st by lia.
  replace (t / 256 * 256 + t mod 256) with t by lia.
  replace ((1 <=? q) && (q <=? 125)) with true by lia. reflexivity.
Qed.
Print Assumptions fc3_roundtrip.
