From Coq Require Import List Arith Lia Bool.
Import ListNotations.

(* ---- skeleton language (what the go/ast translator emits for one function body) ---- *)
Inductive stmt :=
| SLock | SUnlock | SDeferUnlock
| SUse (guarded : bool)
| SBranch (a b : list stmt)
| SLoop (body : list stmt)
| SRet
| SSkip.

Inductive event := EAcq | ERel | EDefer | EUse (guarded : bool).
Inductive status := Fell | Returned | Stopped.   (* Stopped = the thread was not scheduled any further *)

(* all finite (partial) executions of a statement list: trace and how it ended *)
(* the index counts loop iterations entered; it only serves as an induction measure *)
Inductive tr : nat -> list stmt -> list event -> status -> Prop :=
| tr_nil n : tr n [] [] Fell
| tr_stop n s : tr n s [] Stopped
| tr_lock n r t st : tr n r t st -> tr n (SLock :: r) (EAcq :: t) st
| tr_unlock n r t st : tr n r t st -> tr n (SUnlock :: r) (ERel :: t) st
| tr_defer n r t st : tr n r t st -> tr n (SDeferUnlock :: r) (EDefer :: t) st
| tr_use n g r t st : tr n r t st -> tr n (SUse g :: r) (EUse g :: t) st
| tr_skip n r t st : tr n r t st -> tr n (SSkip :: r) t st
| tr_ret n r : tr n (SRet :: r) [] Returned
| tr_brl n a b r t st : tr n (a ++ r) t st -> tr n (SBranch a b :: r) t st
| tr_brr n a b r t st : tr n (b ++ r) t st -> tr n (SBranch a b :: r) t st
| tr_loop_out n body r t st : tr n r t st -> tr n (SLoop body :: r) t st
| tr_loop_in n body r t st : tr n (body ++ SLoop body :: r) t st -> tr (S n) (SLoop body :: r) t st.

(* ownership discipline of a trace: state = (owned, deferred) *)
Fixpoint disc (o d : bool) (t : list event) : option (bool * bool) :=
  match t with
  | [] => Some (o, d)
  | EAcq :: r => if o then None else disc true d r
  | ERel :: r => if o && negb d then disc false d r else None
  | EDefer :: r => if o && negb d then disc o true r else None
  | EUse g :: r => if g && negb o then None else disc o d r
  end.
(* a function body is safe from (o,d) if every partial execution is disciplined and every complete one
   ends with owned = deferred (the deferred unlock, if any, then frees the lock) *)
Definition ok_end (o d : bool) (t : list event) (st : status) : Prop :=
  match disc o d t with
  | None => False
  | Some (o', d') => st = Stopped \/ o' = d'
  end.
Definition safe_n (n : nat) (s : list stmt) (o d : bool) : Prop :=
  forall m t st, m <= n -> tr m s t st -> ok_end o d t st.
Definition safe (s : list stmt) (o d : bool) : Prop := forall n, safe_n n s o d.

(* ---- checker ---- *)
Definition merge (x y : option (bool * bool)) : option (option (bool * bool)) :=
  match x, y with
  | None, z | z, None => Some z
  | Some (a, b), Some (c, e) => if Bool.eqb a c && Bool.eqb b e then Some x else None
  end.

(* None = rejected; Some None = every path returned; Some (Some (o,d)) = falls through with this status *)
Fixpoint chk (fuel : nat) (s : list stmt) (o d : bool) : option (option (bool * bool)) :=
  match fuel with O => None | S fuel =>
  match s with
  | [] => Some (Some (o, d))
  | SLock :: r => if o then None else chk fuel r true d
  | SUnlock :: r => if o && negb d then chk fuel r false d else None
  | SDeferUnlock :: r => if o && negb d then chk fuel r o true else None
  | SUse g :: r => if g && negb o then None else chk fuel r o d
  | SSkip :: r => chk fuel r o d
  | SRet :: _ => if Bool.eqb o d then Some None else None
  | SBranch a b :: r =>
      match chk fuel a o d, chk fuel b o d with
      | Some x, Some y =>
          match merge x y with
          | Some None => Some None
          | Some (Some (o', d')) => chk fuel r o' d'
          | None => None
          end
      | _, _ => None
      end
  | SLoop body :: r =>
      match chk fuel body o d with
      | Some None => chk fuel r o d
      | Some (Some (o', d')) => if Bool.eqb o o' && Bool.eqb d d' then chk fuel r o d else None
      | None => None
      end
  end end.

(* whole function: starts free, must end with owned = deferred on fall-through as well *)
Definition chk_fun (s : list stmt) : bool :=
  match chk (S (S (length s)) * 50) s false false with
  | Some None => true
  | Some (Some (o, d)) => Bool.eqb o d
  | None => false
  end.

(* ---- soundness ---- *)
Definition cont_ok (n : nat) (res : option (bool * bool)) (r : list stmt) : Prop :=
  match res with None => True | Some (o', d') => safe_n n r o' d' end.

Lemma safe_n_le n n' s o d : n' <= n -> safe_n n s o d -> safe_n n' s o d.
Proof. intros Hle H m t st Hm. apply H. lia. Qed.

Lemma ok_stop o d : ok_end o d [] Stopped.
Proof. unfold ok_end. cbn. auto. Qed.

Lemma loop_safe body k o d : forall n,
  (forall n' k0, n' <= n -> safe_n n' k0 o d -> safe_n n' (body ++ k0) o d) ->
  safe_n n k o d -> safe_n n (SLoop body :: k) o d.
Proof.
  induction n as [|n IHn]; intros Hb Hk m t st Hm Ht.
  - inversion Ht; subst; [apply ok_stop| |lia].
    eapply Hk; [|eassumption]. lia.
  - inversion Ht; subst; [apply ok_stop| |].
    + eapply Hk; [|eassumption]. lia.
    + (* entered one more iteration *)
      assert (Hin : safe_n n (SLoop body :: k) o d).
      { apply IHn.
        - intros n' k0 Hle. apply Hb. lia.
        - eapply safe_n_le; [|exact Hk]. lia. }
      assert (Hle : n0 <= n) by lia.
      pose proof (Hb n0 (SLoop body :: k) ltac:(lia) (safe_n_le _ _ _ _ _ Hle Hin)) as Hs.
      eapply Hs; [|eassumption]. lia.
Qed.

Lemma chk_sound fuel : forall s o d res n r,
  chk fuel s o d = Some res -> cont_ok n res r -> safe_n n (s ++ r) o d.
Proof.
  induction fuel as [|fuel IH]; intros s o d res n r Hc Hr; [discriminate|].
  destruct s as [|x s]; cbn [chk] in Hc.
  - inversion Hc; subst. exact Hr.
  - destruct x.
    + (* lock *) destruct o; [discriminate|]. intros m t st Hm Ht. cbn [app] in Ht.
      inversion Ht; subst; [apply ok_stop|]. unfold ok_end. cbn [disc].
      match goal with H : tr _ (s ++ r) _ _ |- _ => exact (IH _ _ _ _ _ _ Hc Hr _ _ _ Hm H) end.
    + (* unlock *) destruct (o && negb d) eqn:E; [|discriminate]. intros m t st Hm Ht. cbn [app] in Ht.
      inversion Ht; subst; [apply ok_stop|]. unfold ok_end. cbn [disc]. rewrite E.
      match goal with H : tr _ (s ++ r) _ _ |- _ => exact (IH _ _ _ _ _ _ Hc Hr _ _ _ Hm H) end.
    + (* defer *) destruct (o && negb d) eqn:E; [|discriminate]. intros m t st Hm Ht. cbn [app] in Ht.
      inversion Ht; subst; [apply ok_stop|]. unfold ok_end. cbn [disc]. rewrite E.
      match goal with H : tr _ (s ++ r) _ _ |- _ => exact (IH _ _ _ _ _ _ Hc Hr _ _ _ Hm H) end.
    + (* use *) destruct (guarded && negb o) eqn:E; [discriminate|]. intros m t st Hm Ht. cbn [app] in Ht.
      inversion Ht; subst; [apply ok_stop|]. unfold ok_end. cbn [disc]. rewrite E.
      match goal with H : tr _ (s ++ r) _ _ |- _ => exact (IH _ _ _ _ _ _ Hc Hr _ _ _ Hm H) end.
    + (* branch *)
      destruct (chk fuel a o d) as [xa|] eqn:Ea; [|discriminate].
      destruct (chk fuel b o d) as [xb|] eqn:Eb; [|discriminate].
      assert (Hboth : cont_ok n xa (s ++ r) /\ cont_ok n xb (s ++ r)).
      { destruct (merge xa xb) as [[[o' d']|]|] eqn:Em; [| |discriminate].
        - assert (Hk : safe_n n (s ++ r) o' d') by (eapply IH; eauto).
          destruct xa as [[oa da]|]; destruct xb as [[ob db]|]; cbn in Em |- *.
          + destruct (Bool.eqb oa ob && Bool.eqb da db) eqn:Eq; inversion Em; subst.
            apply andb_prop in Eq. destruct Eq as [E1 E2].
            apply eqb_prop in E1. apply eqb_prop in E2. subst. auto.
          + inversion Em; subst. auto.
          + inversion Em; subst. auto.
          + discriminate.
        - destruct xa as [[oa da]|]; destruct xb as [[ob db]|]; cbn in Em |- *; auto;
            try (destruct (Bool.eqb oa ob && Bool.eqb da db)); discriminate. }
      destruct Hboth as [Ha Hb].
      intros m t st Hm Ht. cbn [app] in Ht. inversion Ht; subst; [apply ok_stop| |].
      * match goal with H : tr _ (a ++ s ++ r) _ _ |- _ => exact (IH _ _ _ _ _ _ Ea Ha _ _ _ Hm H) end.
      * match goal with H : tr _ (b ++ s ++ r) _ _ |- _ => exact (IH _ _ _ _ _ _ Eb Hb _ _ _ Hm H) end.
    + (* loop *)
      destruct (chk fuel body o d) as [xb|] eqn:Eb; [|discriminate].
      assert (Hk : safe_n n (s ++ r) o d).
      { destruct xb as [[o' d']|].
        - destruct (Bool.eqb o o' && Bool.eqb d d'); [|discriminate]. eapply IH; eauto.
        - eapply IH; eauto. }
      cbn [app]. apply loop_safe; [|exact Hk].
      intros n' k0 Hle Hk0. eapply IH; [exact Eb|]. destruct xb as [[o' d']|]; cbn; [|trivial].
      destruct (Bool.eqb o o' && Bool.eqb d d') eqn:Eq; [|discriminate].
      apply andb_prop in Eq. destruct Eq as [E1 E2]. apply eqb_prop in E1. apply eqb_prop in E2. subst. exact Hk0.
    + (* ret *) destruct (Bool.eqb o d) eqn:E; [|discriminate]. apply eqb_prop in E. subst.
      intros m t st Hm Ht. cbn [app] in Ht. inversion Ht; subst; unfold ok_end; cbn; auto.
    + (* skip *) intros m t st Hm Ht. cbn [app] in Ht. inversion Ht; subst; [apply ok_stop|].
      match goal with H : tr _ (s ++ r) _ _ |- _ => exact (IH _ _ _ _ _ _ Hc Hr _ _ _ Hm H) end.
Qed.

Theorem chk_fun_sound s : chk_fun s = true -> safe s false false.
Proof.
  unfold chk_fun. intros H n.
  destruct (chk _ s false false) as [res|] eqn:E; [|discriminate].
  rewrite <- (app_nil_r s). eapply chk_sound; [exact E|].
  destruct res as [[o d]|]; cbn; [|trivial].
  apply eqb_prop in H. subst.
  intros m t st _ Ht. inversion Ht; subst; unfold ok_end; cbn; auto.
Qed.
Print Assumptions chk_fun_sound.

(* Client.Do of client.go, as the translator would emit it *)
Definition client_Do : list stmt :=
  [SLock; SDeferUnlock;
   SBranch [SRet] [];                      (* req == nil *)
   SUse true; SBranch [SRet] [];            (* c.conn == nil *)
   SUse true;                               (* SetWriteDeadline *)
   SBranch [SRet] [];
   SUse true;                               (* Write *)
   SBranch [SRet] [];
   SLoop [SBranch [SRet] []; SUse true; SUse true; SBranch [SRet] []; SBranch [SRet] []; SBranch [SRet] []];
   SBranch [SRet] [];
   SRet].
Example client_Do_ok : chk_fun client_Do = true. Proof. vm_compute. reflexivity. Qed.
(* the same with the Lock removed is rejected *)
Example client_Do_nolock : chk_fun (tl (tl client_Do)) = false. Proof. vm_compute. reflexivity. Qed.
