From Coq Require Import List NArith ZArith Lia Bool ZifyBool ZifyN ZifyNat.
Import ListNotations.
Open Scope N_scope.

(* ---- model of packet.CoilsToBytes: for i := 0..len-1 { if coils[i] { result[i/8] |= 1 << (i%8) } } ---- *)
Fixpoint update (l : list N) (k : nat) (v : N) : list N :=
  match l, k with
  | [], _ => []
  | _ :: r, O => v :: r
  | x :: r, S k' => x :: update r k' v
  end.
Fixpoint set_bits (coils : list bool) (i : nat) (res : list N) : list N :=
  match coils with
  | [] => res
  | c :: r =>
      let res' := if c then update res (i / 8) (N.lor (nth (i / 8) res 0) (N.shiftl 1 (N.of_nat (i mod 8)))) else res in
      set_bits r (S i) res'
  end.
Definition byte_count (n : nat) : nat := (n / 8 + (if (n mod 8 =? 0)%nat then 0 else 1))%nat.
Definition coils_to_bytes (coils : list bool) : list N :=
  set_bits coils 0 (repeat 0 (byte_count (length coils))).

(* ---- specification: coil 8k+j is bit j of byte k ---- *)
Definition spec_bit (coils : list bool) (k : nat) (j : N) : bool :=
  (j <? 8) && nth (8 * k + N.to_nat j) coils false.

Lemma nth_update_same l k v : (k < length l)%nat -> nth k (update l k v) 0 = v.
Proof. revert k. induction l as [|x l IH]; intros [|k] H; cbn in *; try lia; auto. apply IH. lia. Qed.
Lemma nth_update_other l k v k' : k' <> k -> nth k' (update l k v) 0 = nth k' l 0.
Proof.
  revert k k'. induction l as [|x l IH]; intros [|k] [|k'] H; cbn in *; try reflexivity; try lia.
  apply IH. lia.
Qed.
Lemma update_length l k v : length (update l k v) = length l.
Proof. revert k. induction l as [|x l IH]; intros [|k]; cbn; auto. Qed.

Lemma set_bits_length coils : forall i res, length (set_bits coils i res) = length res.
Proof.
  induction coils as [|c r IH]; intros i res; cbn [set_bits]; [reflexivity|].
  rewrite IH. destruct c; [apply update_length|reflexivity].
Qed.

(* invariant of the loop: after processing coils i.., bit j of byte k is
   (what was there before) or (the coil at 8k+j if that index is among the processed ones) *)
Lemma set_bits_spec coils : forall i res k j,
  (forall k', (k' < length res)%nat \/ True) ->
  (i + length coils <= 8 * length res)%nat ->
  j < 8 ->
  N.testbit (nth k (set_bits coils i res) 0) j =
    N.testbit (nth k res 0) j ||
    ((i <=? 8 * k + N.to_nat j)%nat && nth (8 * k + N.to_nat j - i) coils false).
Proof.
  induction coils as [|c r IH]; intros i res k j _ Hlen Hj; cbn [set_bits].
  - destruct (8 * k + N.to_nat j - i)%nat; cbn; rewrite andb_false_r, orb_false_r; reflexivity.
  - cbn [length] in Hlen.
    rewrite IH; [| auto | (destruct c; rewrite ?update_length; lia) | exact Hj].
    set (idx := (8 * k + N.to_nat j)%nat).
    assert (Hdm : (i = 8 * (i / 8) + i mod 8)%nat) by (apply Nat.div_mod; lia).
    assert (Hm : (i mod 8 < 8)%nat) by (apply Nat.mod_upper_bound; lia).
    destruct (Nat.eq_dec idx i) as [Heq|Hne].
    + (* this is the coil being processed now *)
      assert (Hk : k = (i / 8)%nat) by (unfold idx in Heq; lia).
      assert (Hjj : N.to_nat j = (i mod 8)%nat) by (unfold idx in Heq; lia).
      replace (S i <=? idx)%nat with false by lia.
      replace (i <=? idx)%nat with true by lia.
      replace (idx - i)%nat with 0%nat by lia. cbn [nth andb]. rewrite orb_false_r.
      destruct c; [|rewrite orb_false_r; reflexivity].
      subst k. rewrite nth_update_same by lia.
      rewrite N.lor_spec, N.shiftl_1_l, N.pow2_bits_eqb.
      replace (N.of_nat (i mod 8) =? j) with true by lia. rewrite orb_true_r. reflexivity.
    + (* some other bit: unchanged by this iteration *)
      assert (Hsame : N.testbit (nth k (if c then update res (i / 8) (N.lor (nth (i / 8) res 0) (N.shiftl 1 (N.of_nat (i mod 8)))) else res) 0) j
                      = N.testbit (nth k res 0) j).
      { destruct c; [|reflexivity].
        destruct (Nat.eq_dec k (i / 8)) as [->|Hk]; [|rewrite nth_update_other by exact Hk; reflexivity].
        rewrite nth_update_same by lia.
        rewrite N.lor_spec, N.shiftl_1_l, N.pow2_bits_eqb.
        replace (N.of_nat (i mod 8) =? j) with false by (unfold idx in Hne; lia).
        rewrite orb_false_r. reflexivity. }
      rewrite Hsame. f_equal.
      destruct (i <=? idx)%nat eqn:E1.
      * replace (S i <=? idx)%nat with true by lia. cbn [andb].
        replace (idx - i)%nat with (S (idx - S i)) by lia. reflexivity.
      * replace (S i <=? idx)%nat with false by lia. reflexivity.
Qed.

Lemma nth_repeat_0 n k : nth k (repeat 0 n) 0 = 0.
Proof. revert k. induction n as [|n IH]; intros [|k]; cbn; auto. Qed.

Lemma byte_count_enough n : (n <= 8 * byte_count n)%nat.
Proof.
  unfold byte_count. pose proof (Nat.div_mod n 8 ltac:(lia)).
  pose proof (Nat.mod_upper_bound n 8 ltac:(lia)).
  destruct (n mod 8 =? 0)%nat eqn:E; lia.
Qed.

(* CoilsToBytes packs LSB first, as the specification prescribes *)
Theorem coils_to_bytes_spec coils k j : j < 8 ->
  N.testbit (nth k (coils_to_bytes coils) 0) j = spec_bit coils k j.
Proof.
  intros Hj. unfold coils_to_bytes, spec_bit.
  rewrite set_bits_spec; [|auto|rewrite repeat_length; pose proof (byte_count_enough (length coils)); lia|exact Hj].
  rewrite nth_repeat_0, N.bits_0. cbn [orb]. rewrite Nat.sub_0_r.
  replace (j <? 8) with true by lia. reflexivity.
Qed.
Theorem coils_to_bytes_length coils : length (coils_to_bytes coils) = byte_count (length coils).
Proof. unfold coils_to_bytes. rewrite set_bits_length, repeat_length. reflexivity. Qed.

(* ---- model of packet.isBitSet (pinned): bytes are indexed from the END ---- *)
Definition is_bit_set (data : list N) (start bit : N) : option bool :=   (* None = error *)
  let target := (bit + 65536 - start) mod 65536 in
  if bit <? start then None else
  if (N.of_nat (length data) * 8 <=? target) then None else
  let nth_byte := (length data - 1 - N.to_nat (target / 8))%nat in
  Some (N.testbit (nth nth_byte data 0) (target mod 8)).

(* what the specification says: coil start+i is bit (i mod 8) of byte (i div 8) *)
Definition coil_at (data : list N) (i : N) : bool := N.testbit (nth (N.to_nat (i / 8)) data 0) (i mod 8).

(* characterisation of the pinned code: it reads the byte-reversed payload *)
Theorem is_bit_set_reversed data start i :
  start + i < 65536 -> i < N.of_nat (length data) * 8 ->
  is_bit_set data start (start + i) = Some (coil_at (rev data) i).
Proof.
  intros Hs Hi. unfold is_bit_set, coil_at.
  replace ((start + i + 65536 - start) mod 65536) with i by lia.
  replace (start + i <? start) with false by lia.
  replace (N.of_nat (length data) * 8 <=? i) with false by lia.
  f_equal. f_equal.
  assert (Hlt : (N.to_nat (i / 8) < length data)%nat) by lia.
  rewrite rev_nth by exact Hlt. f_equal. lia.
Qed.

(* the full statement of C11 is false for the pinned code ... *)
Theorem is_bit_set_refuted : exists data start i,
  i < N.of_nat (length data) * 8 /\ is_bit_set data start (start + i) <> Some (coil_at data i).
Proof. exists [1; 0], 0, 0. split; [vm_compute; reflexivity|vm_compute; discriminate]. Qed.
(* ... and true for one-byte payloads *)
Theorem is_bit_set_one_byte b start i : start + i < 65536 -> i < 8 ->
  is_bit_set [b] start (start + i) = Some (coil_at [b] i).
Proof. intros Hs Hi. rewrite is_bit_set_reversed; [reflexivity|exact Hs|cbn; lia]. Qed.
(* error clauses *)
Theorem is_bit_set_before data start a : a < start -> is_bit_set data start a = None.
Proof. intros H. unfold is_bit_set. replace (a <? start) with true by lia. reflexivity. Qed.
Theorem is_bit_set_beyond data start i : start + i < 65536 -> N.of_nat (length data) * 8 <= i ->
  is_bit_set data start (start + i) = None.
Proof.
  intros Hs Hi. unfold is_bit_set.
  replace ((start + i + 65536 - start) mod 65536) with i by lia.
  replace (start + i <? start) with false by lia.
  replace (N.of_nat (length data) * 8 <=? i) with true by lia. reflexivity.
Qed.
Print Assumptions coils_to_bytes_spec.
Print Assumptions is_bit_set_reversed.
