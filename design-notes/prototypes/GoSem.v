From Coq Require Import List NArith ZArith Lia Bool ZifyBool ZifyN ZifyNat.
Import ListNotations.
Open Scope N_scope.
Ltac Zify.zify_post_hook ::= Z.div_mod_to_equations.

(* outcome of a Go call that returns (value, error) and may panic *)
Inductive res (E A : Type) := Ok (a : A) | Err (e : E) | Panic.
Arguments Ok {E A}. Arguments Err {E A}. Arguments Panic {E A}.

Definition bind {E A B} (x : res E A) (f : A -> res E B) : res E B :=
  match x with Ok a => f a | Err e => Err e | Panic => Panic end.
Notation "'let*' x ':=' c 'in' k" := (bind c (fun x => k)) (at level 200, x pattern, right associativity).

(* a Go []byte: the bytes inside len, and the stale bytes between len and cap *)
Record slice := { vis : list N; spare : list N }.
Definition slen (s : slice) : nat := length (vis s).
Definition scap (s : slice) : nat := length (vis s) + length (spare s).
Definition bytes_ok (l : list N) : Prop := Forall (fun b => b < 256) l.

(* s[i] *)
Definition idx {E} (s : slice) (i : nat) : res E N :=
  match nth_error (vis s) i with Some b => Ok b | None => Panic end.
(* s[i:j] -- legal up to cap; bytes beyond len come from spare *)
Definition sub {E} (s : slice) (i j : nat) : res E (list N) :=
  if (i <=? j)%nat && (j <=? scap s)%nat
  then Ok (firstn (j - i) (skipn i (vis s ++ spare s))) else Panic.

Definition be16 (l : list N) : N :=
  match l with [a; b] => a * 256 + b | _ => 0 end.
Definition put16 (x : N) : list N := [x / 256; x mod 256].
