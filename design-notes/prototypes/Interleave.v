From Coq Require Import List Arith Lia Bool.
Import ListNotations.

(* thread-local events after the deferred unlock has been made explicit *)
Inductive ev := Acq | Rel | Use (guarded : bool).

(* local discipline, as established per function by the skeleton checker *)
Fixpoint disc1 (owned : bool) (t : list ev) : bool :=
  match t with
  | [] => negb owned
  | Acq :: r => negb owned && disc1 true r
  | Rel :: r => owned && disc1 false r
  | Use g :: r => (negb g || owned) && disc1 owned r
  end.

(* global state: who holds the mutex, and what every thread still has to do *)
Record gst := { owner : option nat; todo : nat -> list ev }.
Definition upd (f : nat -> list ev) (i : nat) (v : list ev) : nat -> list ev :=
  fun j => if Nat.eqb j i then v else f j.

(* one scheduling decision: thread i performs its next event; Acq is enabled only when the mutex is free *)
Inductive gstep : gst -> nat -> ev -> gst -> Prop :=
| g_acq s i r : todo s i = Acq :: r -> owner s = None ->
    gstep s i Acq {| owner := Some i; todo := upd (todo s) i r |}
| g_rel s i r : todo s i = Rel :: r ->
    gstep s i Rel {| owner := None; todo := upd (todo s) i r |}
| g_use s i g r : todo s i = Use g :: r ->
    gstep s i (Use g) {| owner := owner s; todo := upd (todo s) i r |}.

Inductive gexec : gst -> list (nat * ev) -> gst -> Prop :=
| ge_nil s : gexec s [] s
| ge_cons s i e s' l s'' : gstep s i e s' -> gexec s' l s'' -> gexec s ((i, e) :: l) s''.

Definition owns (s : gst) (i : nat) : bool :=
  match owner s with Some j => Nat.eqb j i | None => false end.
Definition inv (s : gst) : Prop := forall i, disc1 (owns s i) (todo s i) = true.

Lemma upd_same f i v : upd f i v i = v.
Proof. unfold upd. rewrite Nat.eqb_refl. reflexivity. Qed.
Lemma upd_other f i v j : j <> i -> upd f i v j = f j.
Proof. unfold upd. intros H. apply Nat.eqb_neq in H. rewrite H. reflexivity. Qed.

Lemma step_inv s i e s' : inv s -> gstep s i e s' ->
  inv s' /\ (e = Use true -> owner s = Some i) /\ (e = Rel -> owner s = Some i).
Proof.
  intros Hinv Hst. pose proof (Hinv i) as Hi.
  inversion Hst as [s0 i0 r Ht Ho | s0 i0 r Ht | s0 i0 g r Ht]; subst; rewrite Ht in Hi; cbn [disc1] in Hi.
  - (* acquire *)
    apply andb_prop in Hi. destruct Hi as [_ Hr].
    split; [|split; discriminate].
    intros j. unfold owns. cbn [owner todo].
    destruct (Nat.eq_dec j i) as [->|Hne].
    + rewrite upd_same, Nat.eqb_refl. exact Hr.
    + rewrite upd_other by exact Hne.
      assert (E : Nat.eqb i j = false) by (apply Nat.eqb_neq; congruence). rewrite E.
      specialize (Hinv j). unfold owns in Hinv. rewrite Ho in Hinv. exact Hinv.
  - (* release *)
    apply andb_prop in Hi. destruct Hi as [Hown Hr].
    assert (Ho : owner s = Some i).
    { unfold owns in Hown. destruct (owner s) as [k|]; [|discriminate]. apply Nat.eqb_eq in Hown. subst. reflexivity. }
    split; [|split; [discriminate|intros _; exact Ho]].
    intros j. unfold owns. cbn [owner todo].
    destruct (Nat.eq_dec j i) as [->|Hne].
    + rewrite upd_same. exact Hr.
    + rewrite upd_other by exact Hne.
      specialize (Hinv j). unfold owns in Hinv. rewrite Ho in Hinv.
      assert (E : Nat.eqb i j = false) by (apply Nat.eqb_neq; congruence). rewrite E in Hinv. exact Hinv.
  - (* use *)
    apply andb_prop in Hi. destruct Hi as [Hg Hr].
    split; [|split; [|discriminate]].
    + intros j. unfold owns. cbn [owner todo].
      destruct (Nat.eq_dec j i) as [->|Hne].
      * rewrite upd_same. exact Hr.
      * rewrite upd_other by exact Hne. exact (Hinv j).
    + intros Hu. inversion Hu; subst. cbn in Hg.
      unfold owns in Hg. destruct (owner s) as [k|]; [|discriminate]. apply Nat.eqb_eq in Hg. subst. reflexivity.
Qed.

(* Every schedule of any number of disciplined threads: a guarded access is always made by the thread that
   holds the mutex, so two guarded accesses are never concurrent, and only the holder releases. *)
Theorem mutual_exclusion : forall s l s',
  inv s -> gexec s l s' ->
  inv s' /\
  forall pre i e post s1, l = pre ++ (i, e) :: post -> gexec s pre s1 ->
    (e = Use true -> owner s1 = Some i) /\ (e = Rel -> owner s1 = Some i).
Proof.
  intros s l s' Hinv Hex. induction Hex as [s|s i e s1 l s2 Hst Hex IH].
  - split; [exact Hinv|]. intros pre i e post s1 Hl. destruct pre; discriminate.
  - destruct (step_inv _ _ _ _ Hinv Hst) as [Hinv1 [Huse Hrel]].
    destruct (IH Hinv1) as [Hinv2 Hrest]. split; [exact Hinv2|].
    intros pre j e' post s3 Hl Hpre.
    destruct pre as [|[i0 e0] pre].
    + cbn in Hl. inversion Hl; subst. inversion Hpre; subst. auto.
    + cbn in Hl. inversion Hl; subst.
      inversion Hpre as [|? ? ? sx ? ? Hst' Hpre']; subst.
      (* the first step is deterministic given thread and event *)
      assert (sx = s1).
      { clear - Hst Hst'. inversion Hst; subst; inversion Hst'; subst;
          repeat match goal with
                 | H1 : todo ?s ?i = _, H2 : todo ?s ?i = _ |- _ => rewrite H1 in H2; inversion H2; subst; clear H2
                 end; reflexivity. }
      subst sx. eapply Hrest; eauto.
Qed.
Print Assumptions mutual_exclusion.

(* initial state of N threads each running a checked function body satisfies inv *)
Lemma init_inv (bodies : nat -> list ev) :
  (forall i, disc1 false (bodies i) = true) -> inv {| owner := None; todo := bodies |}.
Proof. intros H i. exact (H i). Qed.
