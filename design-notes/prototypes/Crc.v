From Coq Require Import List NArith ZArith Lia Bool ZifyBool ZifyN ZifyNat.
Import ListNotations.
Open Scope N_scope.

(* ---- model of packet.CRC16 ---- *)
Definition bit_step (c : N) : N :=
  if N.eqb (N.land c 1) 1 then N.lxor (N.shiftr c 1) 0xA001 else N.shiftr c 1.
Fixpoint iter {A} (n : nat) (f : A -> A) (x : A) : A :=
  match n with O => x | S k => iter k f (f x) end.
Definition byte_step (c b : N) : N := iter 8 bit_step (N.lxor c b).
Definition crc16 (l : list N) : N := fold_left byte_step l 0xFFFF.

(* ---- specification on bit vectors (LSB first), as the serial line spec describes it ---- *)
Definition bv := list bool.
Fixpoint bv_of_N (w : nat) (n : N) : bv :=
  match w with O => [] | S k => N.odd n :: bv_of_N k (N.div2 n) end.
Fixpoint N_of_bv (v : bv) : N :=
  match v with [] => 0 | b :: r => (if b then 1 else 0) + 2 * N_of_bv r end.
Fixpoint xorv (a b : bv) : bv :=
  match a, b with x :: a', y :: b' => xorb x y :: xorv a' b' | _, _ => a end.
Definition poly : bv := bv_of_N 16 0xA001.
Definition spec_bit_step (r : bv) : bv :=
  match r with
  | [] => []
  | lsb :: rest => let sh := rest ++ [false] in if lsb then xorv sh poly else sh
  end.
(* xor the byte into the low 8 bits of the 16-bit register *)
Definition spec_byte_step (r : bv) (b : bv) : bv := iter 8 spec_bit_step (xorv r b).
Definition spec_crc (l : list bv) : bv := fold_left spec_byte_step l (repeat true 16).

(* ---- finite sweeps ---- *)
Fixpoint seqN_from (n : nat) (start : N) : list N :=
  match n with O => [] | S k => start :: seqN_from k (N.succ start) end.
Definition seqN (n : N) : list N := seqN_from (N.to_nat n) 0.
Lemma in_seqN_from n : forall s x, s <= x < s + N.of_nat n -> In x (seqN_from n s).
Proof.
  induction n as [|n IH]; intros s x H; [lia|]. cbn [seqN_from].
  destruct (N.eq_dec x s) as [->|Hne]; [left; reflexivity|right]. apply IH. lia.
Qed.
Lemma in_seqN n x : x < n -> In x (seqN n).
Proof. intros H. apply in_seqN_from. rewrite N2Nat.id. lia. Qed.

Definition sweep_bit : bool :=
  forallb (fun c => (N.eqb (N_of_bv (spec_bit_step (bv_of_N 16 c))) (bit_step c)) && (bit_step c <? 65536)) (seqN 65536).
Lemma sweep_bit_ok : sweep_bit = true. Proof. vm_compute. reflexivity. Qed.

Lemma bit_step_spec c : c < 65536 ->
  N_of_bv (spec_bit_step (bv_of_N 16 c)) = bit_step c /\ bit_step c < 65536.
Proof.
  intros H. pose proof sweep_bit_ok as S. unfold sweep_bit in S.
  rewrite forallb_forall in S. specialize (S c (in_seqN _ _ H)).
  apply andb_prop in S. destruct S as [A B]. split; [apply N.eqb_eq in A; exact A|lia].
Qed.

(* round trip between the two representations of a 16-bit register *)
Definition sweep_rt : bool := forallb (fun c => N.eqb (N_of_bv (bv_of_N 16 c)) c) (seqN 65536).
Lemma sweep_rt_ok : sweep_rt = true. Proof. vm_compute. reflexivity. Qed.
Lemma N_of_bv_of_N c : c < 65536 -> N_of_bv (bv_of_N 16 c) = c.
Proof.
  intros H. pose proof sweep_rt_ok as S. unfold sweep_rt in S. rewrite forallb_forall in S.
  apply N.eqb_eq. exact (S c (in_seqN _ _ H)).
Qed.

Lemma bv_canonical : forall v, bv_of_N (length v) (N_of_bv v) = v.
Proof.
  induction v as [|b v IH]; [reflexivity|]. cbn [length bv_of_N N_of_bv].
  assert (Ho : N.odd ((if b then 1 else 0) + 2 * N_of_bv v) = b).
  { rewrite N.odd_add_mul_2. destruct b; reflexivity. }
  assert (Hd : N.div2 ((if b then 1 else 0) + 2 * N_of_bv v) = N_of_bv v).
  { rewrite N.div2_div. destruct b; [|rewrite N.add_0_l, N.mul_comm; apply N.div_mul; lia].
    rewrite N.add_comm, N.mul_comm. rewrite N.div_add_l by lia. cbn. lia. }
  rewrite Ho, Hd, IH. reflexivity.
Qed.

Lemma bv_of_N_length w : forall n, length (bv_of_N w n) = w.
Proof. induction w as [|w IH]; intros n; cbn; [reflexivity|rewrite IH; reflexivity]. Qed.

Lemma N_of_bv_bound : forall v, N_of_bv v < 2 ^ N.of_nat (length v).
Proof.
  induction v as [|b v IH]; [cbn; lia|]. cbn [length N_of_bv].
  rewrite Nat2N.inj_succ, N.pow_succ_r by lia. destruct b; lia.
Qed.

(* the bit step of the model, read on bit vectors, is the specified one *)
Lemma spec_bit_step_length r : length r = 16%nat -> length (spec_bit_step r) = 16%nat.
Proof.
  intros H. destruct r as [|b r]; [discriminate|]. cbn in H. cbn [spec_bit_step].
  assert (Hs : length (r ++ [false]) = 16%nat) by (rewrite app_length; cbn; lia).
  destruct b; [|exact Hs].
  remember (r ++ [false]) as sh. clear - Hs.
  do 17 (destruct sh as [|? sh]; [try discriminate|]); try discriminate. reflexivity.
Qed.

Lemma bit_step_bv r : length r = 16%nat -> N_of_bv (spec_bit_step r) = bit_step (N_of_bv r).
Proof.
  intros H. pose proof (N_of_bv_bound r) as Hb. rewrite H in Hb. change (2 ^ N.of_nat 16) with 65536 in Hb.
  destruct (bit_step_spec _ Hb) as [A _]. rewrite <- A.
  rewrite <- H at 1. rewrite bv_canonical. reflexivity.
Qed.

Lemma iter_bit_steps n : forall r, length r = 16%nat ->
  N_of_bv (iter n spec_bit_step r) = iter n bit_step (N_of_bv r) /\ length (iter n spec_bit_step r) = 16%nat.
Proof.
  induction n as [|n IH]; intros r H; cbn [iter]; [auto|].
  destruct (IH (spec_bit_step r) (spec_bit_step_length r H)) as [A B].
  rewrite A, bit_step_bv by exact H. auto.
Qed.

(* xor of the byte into the register: bitwise xor on vectors is lxor on numbers *)
Lemma N_of_bv_xorv : forall a b, (length b <= length a)%nat ->
  N_of_bv (xorv a b) = N.lxor (N_of_bv a) (N_of_bv b).
Proof.
  induction a as [|x a IH]; intros b Hl.
  - destruct b; [reflexivity|cbn in Hl; lia].
  - destruct b as [|y b]; [cbn [xorv N_of_bv]; rewrite N.lxor_0_r; reflexivity|].
    cbn [xorv N_of_bv]. cbn in Hl. rewrite IH by lia.
    apply N.bits_inj. intros k.
    rewrite N.lxor_spec.
    destruct (N.eq_dec k 0) as [->|Hk].
    + rewrite !N.bit0_odd. rewrite !N.odd_add_mul_2.
      destruct x, y; reflexivity.
    + replace k with (N.succ (N.pred k)) by lia.
      assert (T : forall (c : bool) z, N.testbit ((if c then 1 else 0) + 2 * z) (N.succ (N.pred k)) = N.testbit z (N.pred k)).
      { intros c z. destruct c.
        - rewrite N.add_comm. apply (N.testbit_succ_r z true).
        - rewrite N.add_0_l. apply N.double_bits_succ. }
      rewrite !T, N.lxor_spec. reflexivity.
Qed.
Lemma xorv_length : forall a b, length (xorv a b) = length a.
Proof. induction a as [|x a IH]; intros [|y b]; cbn; auto. Qed.

Lemma byte_step_bv r b : length r = 16%nat -> (length b <= 16)%nat ->
  N_of_bv (spec_byte_step r b) = byte_step (N_of_bv r) (N_of_bv b) /\ length (spec_byte_step r b) = 16%nat.
Proof.
  intros Hr Hb. unfold spec_byte_step, byte_step.
  destruct (iter_bit_steps 8 (xorv r b)) as [A B]; [rewrite xorv_length; exact Hr|].
  rewrite A, N_of_bv_xorv by lia. auto.
Qed.

(* main theorem: for every byte string the model CRC is the specified CRC *)
Definition bits8 (b : N) : bv := bv_of_N 8 b.
Lemma N_of_bits8 b : b < 256 -> N_of_bv (bits8 b) = b.
Proof.
  intros H. unfold bits8.
  assert (S : forallb (fun c => N.eqb (N_of_bv (bv_of_N 8 c)) c) (seqN 256) = true) by (vm_compute; reflexivity).
  rewrite forallb_forall in S. apply N.eqb_eq. exact (S b (in_seqN _ _ H)).
Qed.

Theorem crc16_is_spec : forall l, Forall (fun b => b < 256) l ->
  crc16 l = N_of_bv (spec_crc (map bits8 l)) /\ crc16 l < 65536.
Proof.
  intros l Hl. unfold crc16, spec_crc.
  assert (G : forall (l : list N) r, Forall (fun b => b < 256) l -> length r = 16%nat ->
     fold_left byte_step l (N_of_bv r) = N_of_bv (fold_left spec_byte_step (map bits8 l) r)
     /\ length (fold_left spec_byte_step (map bits8 l) r) = 16%nat).
  { clear. induction l as [|b l IH]; intros r Hl Hr; cbn [fold_left map]; [auto|].
    pose proof (Forall_inv Hl) as Hb. pose proof (Forall_inv_tail Hl) as Hl'.
    destruct (byte_step_bv r (bits8 b) Hr) as [A B]; [unfold bits8; rewrite bv_of_N_length; lia|].
    rewrite N_of_bits8 in A by exact Hb. rewrite <- A. apply IH; assumption. }
  destruct (G l (repeat true 16) Hl eq_refl) as [A B].
  change (N_of_bv (repeat true 16)) with 65535 in A. change 0xFFFF with 65535.
  rewrite A. split; [reflexivity|].
  pose proof (N_of_bv_bound (fold_left spec_byte_step (map bits8 l) (repeat true 16))) as Hb.
  rewrite B in Hb. exact Hb.
Qed.
Print Assumptions crc16_is_spec.
Example check_value : crc16 [49;50;51;52;53;54;55;56;57] = 0x4B37. Proof. vm_compute. reflexivity. Qed.
