From Coq Require Import List NArith ZArith Lia Bool ZifyBool ZifyN ZifyNat Permutation Sorted.
Import ListNotations.
Open Scope N_scope.
Ltac Zify.zify_post_hook ::= Z.div_mod_to_equations.

(* ---- model of splitter.go: batchToRequests inner loop, after the 32-bit repair ---- *)
Record slot := { s_addr : N; s_size : N; s_fields : list nat }.   (* fields abstracted to ids here *)
Record batch := { b_start : N; b_qty : N; b_fields : list nat }.

Definition diff_of (first : N) (s : slot) : N := N.min (s_addr s + s_size s - first) 65535.

Fixpoint scan (limit : N) (slots : list slot) (first : N) (cur : batch) (acc : list batch) : list batch :=
  match slots with
  | [] => acc ++ [cur]
  | s :: rest =>
      let d := diff_of first s in
      if limit <? d then
        scan limit rest (s_addr s)
             {| b_start := s_addr s; b_qty := s_size s; b_fields := s_fields s |} (acc ++ [cur])
      else
        scan limit rest first
             {| b_start := b_start cur; b_qty := N.max (b_qty cur) d; b_fields := b_fields cur ++ s_fields s |} acc
  end.

Definition batches (limit : N) (slots : list slot) : list batch :=
  match slots with
  | [] => []
  | s :: _ => scan limit slots (s_addr s) {| b_start := s_addr s; b_qty := 0; b_fields := [] |} []
  end.

(* ---- ghost version that remembers which slots went where ---- *)
Definition group := (N * list slot)%type.   (* window start, member slots *)
Fixpoint gscan (limit : N) (slots : list slot) (first : N) (cur : list slot) (acc : list group) : list group :=
  match slots with
  | [] => acc ++ [(first, cur)]
  | s :: rest =>
      if limit <? diff_of first s then gscan limit rest (s_addr s) [s] (acc ++ [(first, cur)])
      else gscan limit rest first (cur ++ [s]) acc
  end.

Definition qty_of (first : N) (g : list slot) : N := fold_left (fun q s => N.max q (diff_of first s)) g 0.
Definition batch_of (g : group) : batch :=
  {| b_start := fst g; b_qty := qty_of (fst g) (snd g); b_fields := concat (map s_fields (snd g)) |}.

Lemma qty_of_app first g s : qty_of first (g ++ [s]) = N.max (qty_of first g) (diff_of first s).
Proof. unfold qty_of. rewrite fold_left_app. reflexivity. Qed.

Lemma diff_self s : s_size s <= 65535 -> diff_of (s_addr s) s = s_size s.
Proof. unfold diff_of. lia. Qed.

Lemma scan_gscan limit slots : forall first gcur gacc,
  Forall (fun s => s_size s <= 65535) slots ->
  scan limit slots first (batch_of (first, gcur)) (map batch_of gacc) =
  map batch_of (gscan limit slots first gcur gacc).
Proof.
  induction slots as [|s rest IH]; intros first gcur gacc Hsz.
  - cbn [scan gscan]. rewrite map_app. reflexivity.
  - cbn [scan gscan]. inversion Hsz as [|? ? Hs Hrest]; subst.
    destruct (limit <? diff_of first s) eqn:E.
    + rewrite <- IH by assumption. rewrite map_app. cbn [map]. f_equal.
      unfold batch_of. cbn. rewrite app_nil_r. f_equal.
      unfold qty_of. cbn. rewrite diff_self by assumption. lia.
    + rewrite <- IH by assumption. f_equal.
      unfold batch_of. cbn [fst snd b_start b_qty b_fields]. rewrite qty_of_app, map_app, concat_app. cbn.
      rewrite app_nil_r. reflexivity.
Qed.

(* ---- facts about the ghost partition ---- *)
Lemma gscan_concat limit slots : forall first cur acc,
  concat (map snd (gscan limit slots first cur acc)) = concat (map snd acc) ++ cur ++ slots.
Proof.
  induction slots as [|s rest IH]; intros first cur acc; cbn [gscan].
  - rewrite map_app, concat_app. cbn. rewrite !app_nil_r. reflexivity.
  - destruct (limit <? diff_of first s).
    + rewrite IH, map_app, concat_app. cbn. rewrite app_nil_r, <- app_assoc. reflexivity.
    + rewrite IH, <- app_assoc. reflexivity.
Qed.


(* invariant: the window start of every non-empty group is the address of its first member,
   and all members are at or above it *)
Definition anchored (g : group) : Prop :=
  match snd g with [] => True | s :: _ => fst g = s_addr s end /\ Forall (fun s => fst g <= s_addr s) (snd g).

Lemma sorted_ge s rest :
  Sorted (fun a b => s_addr a < s_addr b) (s :: rest) -> Forall (fun x => s_addr s <= s_addr x) rest.
Proof.
  intros H. apply Sorted_StronglySorted in H.
  - inversion H as [|? ? _ Hall]; subst. eapply Forall_impl; [|exact Hall]. cbn. intros; lia.
  - intros a b c; lia.
Qed.

Lemma gscan_anchored limit slots : forall first cur acc,
  Sorted (fun a b => s_addr a < s_addr b) slots ->
  Forall (fun s => first <= s_addr s) slots ->
  Forall anchored acc -> anchored (first, cur) ->
  (cur = [] -> match slots with s :: _ => first = s_addr s | [] => True end) ->
  Forall anchored (gscan limit slots first cur acc).
Proof.
  induction slots as [|s rest IH]; intros first cur acc Hsort Hge Hacc Hcur Hempty; cbn [gscan].
  - apply Forall_app. split; auto.
  - inversion Hsort as [|? ? Hsort' Hhd]; subst. inversion Hge as [|? ? Hs Hge']; subst.
    pose proof (sorted_ge _ _ Hsort) as Hrest.
    destruct (limit <? diff_of first s) eqn:E.
    + apply IH; auto.
      * apply Forall_app. split; auto.
      * split; cbn; [reflexivity|]. constructor; [lia|constructor].
      * discriminate.
    + apply IH; auto.
      * destruct Hcur as [Hh Hall]. cbn in *. split; cbn.
        -- destruct cur as [|c0 cr]; cbn in *; [apply Hempty; reflexivity|assumption].
        -- apply Forall_app. split; [assumption|]. constructor; [assumption|constructor].
      * intros Hn. destruct cur; discriminate.
Qed.

(* containment relative to the computed quantity: immediate from qty = max *)
Lemma qty_of_ge first g : forall s, In s g -> diff_of first s <= qty_of first g.
Proof.
  unfold qty_of. induction g as [|a g IH] using rev_ind; intros s Hin; [contradiction|].
  rewrite fold_left_app. cbn. apply in_app_or in Hin. destruct Hin as [Hin|[->|[]]].
  - specialize (IH s Hin). lia.
  - lia.
Qed.

(* never split when everything fits *)
Lemma gscan_nosplit limit slots : forall first cur acc,
  Forall (fun s => diff_of first s <= limit) slots ->
  gscan limit slots first cur acc = acc ++ [(first, cur ++ slots)].
Proof.
  induction slots as [|s rest IH]; intros first cur acc Hfit; cbn [gscan].
  - rewrite app_nil_r. reflexivity.
  - inversion Hfit as [|? ? Hs Hrest]; subst.
    replace (limit <? diff_of first s) with false by lia.
    rewrite IH by assumption. rewrite <- app_assoc. reflexivity.
Qed.
Print Assumptions gscan_anchored.
