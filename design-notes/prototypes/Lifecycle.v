From Coq Require Import List Arith ZArith Lia Bool.
Import ListNotations.

(* ---- reduced life-cycle LTS of server.go: accept loop + per-connection goroutines (no shutdown yet) ---- *)
Record cfg := { on_accept : bool; on_close : bool }.          (* which optional callbacks are set *)

Inductive phase :=
| Fresh            (* not yet accepted *)
| Accepted         (* Accept returned, callback not yet consulted *)
| Rejected         (* callback refused: closed, never tracked *)
| Passed        (* callback passed (or unset), not yet tracked *)
| Live             (* tracked, goroutine serving *)
| Exiting          (* goroutine left handle(): recovered, conn closed *)
| Untracked        (* trackConn(c,false) done *)
| Done.            (* close callback consulted *)

Record st := {
  ph : nat -> phase;
  count : Z;                       (* activeConnectionCount *)
  close_calls : nat -> nat;        (* ghost: how often OnCloseConnFunc ran for the connection *)
  accept_args : list (nat * Z);    (* ghost: (connection, count argument) of every OnAcceptConnFunc call *)
  crashed : bool                   (* a nil function value was called *)
}.

Definition upd {A} (f : nat -> A) (c : nat) (v : A) : nat -> A := fun d => if Nat.eqb d c then v else f d.

(* which guard protects the close callback: the pinned code tests OnAcceptConnFunc, the repaired OnCloseConnFunc *)
Inductive variant := Pinned | Repaired.
Definition close_guard (v : variant) (k : cfg) : bool := match v with Pinned => on_accept k | Repaired => on_close k end.

Section LTS.
Variable v : variant.
Variable k : cfg.

Inductive step : st -> st -> Prop :=
| s_accept s c : ph s c = Fresh -> crashed s = false ->
    step s {| ph := upd (ph s) c Accepted; count := count s; close_calls := close_calls s; accept_args := accept_args s; crashed := false |}
| s_cb_ok s c : ph s c = Accepted -> crashed s = false ->
    step s {| ph := upd (ph s) c Passed; count := count s; close_calls := close_calls s;
              accept_args := (if on_accept k then [(c, (count s + 1)%Z)] else []) ++ accept_args s; crashed := false |}
| s_cb_reject s c : ph s c = Accepted -> on_accept k = true -> crashed s = false ->
    step s {| ph := upd (ph s) c Rejected; count := count s; close_calls := close_calls s;
              accept_args := (c, (count s + 1)%Z) :: accept_args s; crashed := false |}
| s_track s c : ph s c = Passed -> crashed s = false ->
    step s {| ph := upd (ph s) c Live; count := (count s + 1)%Z; close_calls := close_calls s; accept_args := accept_args s; crashed := false |}
| s_exit s c : ph s c = Live -> crashed s = false ->
    step s {| ph := upd (ph s) c Exiting; count := count s; close_calls := close_calls s; accept_args := accept_args s; crashed := false |}
| s_untrack s c : ph s c = Exiting -> crashed s = false ->
    step s {| ph := upd (ph s) c Untracked; count := (count s - 1)%Z; close_calls := close_calls s; accept_args := accept_args s; crashed := false |}
| s_close_cb s c : ph s c = Untracked -> crashed s = false ->
    step s (if close_guard v k
            then if on_close k
                 then {| ph := upd (ph s) c Done; count := count s; close_calls := upd (close_calls s) c (S (close_calls s c));
                         accept_args := accept_args s; crashed := false |}
                 else {| ph := ph s; count := count s; close_calls := close_calls s; accept_args := accept_args s; crashed := true |}
            else {| ph := upd (ph s) c Done; count := count s; close_calls := close_calls s; accept_args := accept_args s; crashed := false |}).

Inductive reach (s0 : st) : st -> Prop :=
| r_refl : reach s0 s0
| r_step s' s'' : reach s0 s' -> step s' s'' -> reach s0 s''.
End LTS.

Definition init : st := {| ph := fun _ => Fresh; count := 0; close_calls := fun _ => 0; accept_args := []; crashed := false |}.

(* number of connections among 0..n-1 that are tracked and not yet untracked *)
Definition is_tracked (p : phase) : bool := match p with Live | Exiting => true | _ => false end.
Fixpoint tracked (f : nat -> phase) (n : nat) : Z :=
  match n with O => 0%Z | S m => (tracked f m + if is_tracked (f m) then 1 else 0)%Z end.

Lemma tracked_upd_ge f c p n : (n <= c)%nat -> tracked (upd f c p) n = tracked f n.
Proof.
  induction n as [|n IH]; intros H; cbn [tracked]; [reflexivity|].
  rewrite IH by lia. unfold upd. replace (Nat.eqb n c) with false by (symmetry; apply Nat.eqb_neq; lia). reflexivity.
Qed.
Lemma tracked_upd f c p n : (c < n)%nat ->
  tracked (upd f c p) n = (tracked f n - (if is_tracked (f c) then 1 else 0) + (if is_tracked p then 1 else 0))%Z.
Proof.
  induction n as [|n IH]; intros H; [lia|]. cbn [tracked].
  destruct (Nat.eq_dec c n) as [->|Hne].
  - rewrite tracked_upd_ge by lia. unfold upd. rewrite Nat.eqb_refl. lia.
  - rewrite IH by lia. unfold upd. replace (Nat.eqb n c) with false by (symmetry; apply Nat.eqb_neq; lia). lia.
Qed.

(* invariant for the repaired guard, for connections numbered below n *)
Definition inv (k : cfg) (n : nat) (s : st) : Prop :=
  crashed s = false /\
  (forall c, (n <= c)%nat -> ph s c = Fresh) /\
  count s = tracked (ph s) n /\
  (forall c, close_calls s c = match ph s c with Done => if on_close k then 1 else 0 | _ => 0 end).

Lemma inv_step k n s s' : inv k n s -> step Repaired k s s' ->
  exists n', (n <= n')%nat /\ inv k n' s'.
Proof.
  intros [Hc [Hfresh [Hcnt Hcl]]] Hst.
  inversion Hst as [s0 c Hp _|s0 c Hp _|s0 c Hp _ _|s0 c Hp _|s0 c Hp _|s0 c Hp _|s0 c Hp _]; subst.
  - (* accept: the connection may be a new index *)
    exists (Nat.max n (S c)). split; [lia|]. split; [reflexivity|]. cbn [ph count close_calls crashed]. split; [|split].
    + intros d Hd. unfold upd. replace (Nat.eqb d c) with false by (symmetry; apply Nat.eqb_neq; lia). apply Hfresh. lia.
    + rewrite tracked_upd by lia. rewrite Hp. cbn.
      (* extending the range over fresh connections adds nothing *)
      assert (E : forall m, (n <= m)%nat -> tracked (ph s) m = tracked (ph s) n).
      { induction m as [|m IHm]; intros Hm; [replace n with 0%nat by lia; reflexivity|].
        destruct (Nat.eq_dec n (S m)) as [->|Hne]; [reflexivity|]. cbn [tracked]. rewrite IHm by lia.
        rewrite Hfresh by lia. cbn. lia. }
      rewrite E by lia. lia.
    + intros d. unfold upd. destruct (Nat.eqb d c) eqn:E; [apply Nat.eqb_eq in E; subst; rewrite Hcl, Hp; reflexivity|apply Hcl].
  - exists n. split; [lia|]. assert (Hcn : (c < n)%nat) by (destruct (Nat.lt_ge_cases c n); [assumption|rewrite Hfresh in Hp by assumption; discriminate]).
    split; [reflexivity|]. cbn [ph count close_calls crashed]. split; [|split].
    + intros d Hd. unfold upd. replace (Nat.eqb d c) with false by (symmetry; apply Nat.eqb_neq; lia). apply Hfresh. lia.
    + rewrite tracked_upd by lia. rewrite Hp. cbn. lia.
    + intros d. unfold upd. destruct (Nat.eqb d c) eqn:E; [apply Nat.eqb_eq in E; subst; rewrite Hcl, Hp; reflexivity|apply Hcl].
  - exists n. split; [lia|]. assert (Hcn : (c < n)%nat) by (destruct (Nat.lt_ge_cases c n); [assumption|rewrite Hfresh in Hp by assumption; discriminate]).
    split; [reflexivity|]. cbn [ph count close_calls crashed]. split; [|split].
    + intros d Hd. unfold upd. replace (Nat.eqb d c) with false by (symmetry; apply Nat.eqb_neq; lia). apply Hfresh. lia.
    + rewrite tracked_upd by lia. rewrite Hp. cbn. lia.
    + intros d. unfold upd. destruct (Nat.eqb d c) eqn:E; [apply Nat.eqb_eq in E; subst; rewrite Hcl, Hp; reflexivity|apply Hcl].
  - exists n. split; [lia|]. assert (Hcn : (c < n)%nat) by (destruct (Nat.lt_ge_cases c n); [assumption|rewrite Hfresh in Hp by assumption; discriminate]).
    split; [reflexivity|]. cbn [ph count close_calls crashed]. split; [|split].
    + intros d Hd. unfold upd. replace (Nat.eqb d c) with false by (symmetry; apply Nat.eqb_neq; lia). apply Hfresh. lia.
    + rewrite tracked_upd by lia. rewrite Hp. cbn. lia.
    + intros d. unfold upd. destruct (Nat.eqb d c) eqn:E; [apply Nat.eqb_eq in E; subst; rewrite Hcl, Hp; reflexivity|apply Hcl].
  - exists n. split; [lia|]. assert (Hcn : (c < n)%nat) by (destruct (Nat.lt_ge_cases c n); [assumption|rewrite Hfresh in Hp by assumption; discriminate]).
    split; [reflexivity|]. cbn [ph count close_calls crashed]. split; [|split].
    + intros d Hd. unfold upd. replace (Nat.eqb d c) with false by (symmetry; apply Nat.eqb_neq; lia). apply Hfresh. lia.
    + rewrite tracked_upd by lia. rewrite Hp. cbn. lia.
    + intros d. unfold upd. destruct (Nat.eqb d c) eqn:E; [apply Nat.eqb_eq in E; subst; rewrite Hcl, Hp; reflexivity|apply Hcl].
  - exists n. split; [lia|]. assert (Hcn : (c < n)%nat) by (destruct (Nat.lt_ge_cases c n); [assumption|rewrite Hfresh in Hp by assumption; discriminate]).
    split; [reflexivity|]. cbn [ph count close_calls crashed]. split; [|split].
    + intros d Hd. unfold upd. replace (Nat.eqb d c) with false by (symmetry; apply Nat.eqb_neq; lia). apply Hfresh. lia.
    + rewrite tracked_upd by lia. rewrite Hp. cbn. lia.
    + intros d. unfold upd. destruct (Nat.eqb d c) eqn:E; [apply Nat.eqb_eq in E; subst; rewrite Hcl, Hp; reflexivity|apply Hcl].
  - (* close callback, repaired guard: never calls an unset function *)
    exists n. split; [lia|]. assert (Hcn : (c < n)%nat) by (destruct (Nat.lt_ge_cases c n); [assumption|rewrite Hfresh in Hp by assumption; discriminate]).
    unfold close_guard, inv. destruct (on_close k) eqn:Eoc.
    + split; [reflexivity|]. cbn [ph count close_calls crashed]. split; [|split].
      * intros d Hd. unfold upd. replace (Nat.eqb d c) with false by (symmetry; apply Nat.eqb_neq; lia). apply Hfresh. lia.
      * rewrite tracked_upd by lia. rewrite Hp. cbn. lia.
      * intros d. unfold upd. destruct (Nat.eqb d c) eqn:E; [apply Nat.eqb_eq in E; subst; rewrite Hcl, Hp; reflexivity|apply Hcl].
    + split; [reflexivity|]. cbn [ph count close_calls crashed]. split; [|split].
      * intros d Hd. unfold upd. replace (Nat.eqb d c) with false by (symmetry; apply Nat.eqb_neq; lia). apply Hfresh. lia.
      * rewrite tracked_upd by lia. rewrite Hp. cbn. lia.
      * intros d. unfold upd. destruct (Nat.eqb d c) eqn:E; [apply Nat.eqb_eq in E; subst; rewrite Hcl, Hp; reflexivity|apply Hcl].
Qed.

(* every reachable state of the repaired server, for all four callback configurations modelled here *)
Theorem repaired_invariant k s : reach Repaired k init s -> exists n, inv k n s.
Proof.
  intros H. induction H as [|s' s'' Hr [n IH] Hst].
  - exists 0%nat. split; [reflexivity|]. split; [reflexivity|]. split; reflexivity.
  - destruct (inv_step _ _ _ _ IH Hst) as [n' [_ Hinv]]. exists n'. exact Hinv.
Qed.
Corollary repaired_never_crashes k s : reach Repaired k init s -> crashed s = false.
Proof. intros H. destruct (repaired_invariant _ _ H) as [n [Hc _]]. exact Hc. Qed.
Corollary repaired_close_once k s c : reach Repaired k init s -> ph s c = Done ->
  close_calls s c = if on_close k then 1%nat else 0%nat.
Proof. intros H Hd. destruct (repaired_invariant _ _ H) as [n [_ [_ [_ Hcl]]]]. rewrite Hcl, Hd. reflexivity. Qed.

(* the pinned guard: accept callback set, close callback unset -> a reachable crash *)
Theorem pinned_crash_reachable : exists s, reach Pinned {| on_accept := true; on_close := false |} init s /\ crashed s = true.
Proof.
  eexists. split.
  - eapply r_step. eapply r_step. eapply r_step. eapply r_step. eapply r_step. eapply r_step. apply r_refl.
    + apply (s_accept _ _ _ 0%nat); reflexivity.
    + apply (s_cb_ok _ _ _ 0%nat); reflexivity.
    + apply (s_track _ _ _ 0%nat); reflexivity.
    + apply (s_exit _ _ _ 0%nat); reflexivity.
    + apply (s_untrack _ _ _ 0%nat); reflexivity.
    + apply (s_close_cb _ _ _ 0%nat); reflexivity.
  - reflexivity.
Qed.
Print Assumptions repaired_invariant.
