From Coq Require Import List NArith ZArith Lia Bool ZifyBool ZifyN ZifyNat.
Import ListNotations.

(* ---- model of ModbusTCPAssembler.ReceiveRead after the repair (wait for n bytes, loop, consume) ---- *)
Inductive looks_res :=
| TooShort
| NotTcp (reply : list N)                       (* cannot resynchronise: reply + close *)
| Delimited (n : nat) (unsupported : option (list N)).   (* frame of n bytes; Some e = unsupported fc, reply e *)

Section Asm.
Variable looks : list N -> looks_res.           (* LooksLikeModbusTCP on the buffered bytes *)
Variable handle : list N -> list N.             (* parse + handler + encode for one delimited frame *)

(* what the classifier guarantees (proved for the packet model in C18) *)
Hypothesis looks_short : forall b, (length b < 8)%nat -> looks b = TooShort.
Hypothesis looks_prefix : forall b c, (8 <= length b)%nat -> looks (b ++ c) = looks b.
Hypothesis looks_min : forall b n u, looks b = Delimited n u -> (8 <= n)%nat.

Record st := { buf : list N; outp : list N; closed : bool }.

Fixpoint drain (fuel : nat) (b out : list N) : st :=
  match fuel with
  | O => {| buf := b; outp := out; closed := false |}       (* never reached, see drain_fuel *)
  | S f =>
    match looks b with
    | TooShort => {| buf := b; outp := out; closed := false |}
    | NotTcp e => {| buf := []; outp := out ++ e; closed := true |}
    | Delimited n u =>
        if (length b <? n)%nat then {| buf := b; outp := out; closed := false |}
        else drain f (skipn n b) (out ++ match u with Some e => e | None => handle (firstn n b) end)
    end
  end.

Definition receive (s : st) (chunk : list N) : st :=
  if closed s then s else
  let b := buf s ++ chunk in
  let r := drain (S (length b)) b [] in
  {| buf := buf r; outp := outp s ++ outp r; closed := closed r |}.

Definition run (chunks : list (list N)) : st :=
  fold_left receive chunks {| buf := []; outp := []; closed := false |}.

(* more fuel than needed changes nothing *)
Lemma drain_fuel : forall f1 f2 b out, (length b < f1)%nat -> (length b < f2)%nat -> drain f1 b out = drain f2 b out.
Proof.
  induction f1 as [|f1 IH]; intros f2 b out H1 H2; [lia|].
  destruct f2 as [|f2]; [lia|]. cbn [drain].
  destruct (looks b) as [|e|n u] eqn:E; try reflexivity.
  destruct (length b <? n)%nat eqn:En; [reflexivity|].
  pose proof (looks_min _ _ _ E). apply IH; rewrite skipn_length; lia.
Qed.

Lemma drain_out : forall f b out, 
  outp (drain f b out) = out ++ outp (drain f b []) /\ buf (drain f b out) = buf (drain f b []) /\ closed (drain f b out) = closed (drain f b []).
Proof.
  induction f as [|f IH]; intros b out; cbn [drain].
  - cbn. rewrite app_nil_r. auto.
  - destruct (looks b) as [|e|n u].
    + cbn. rewrite app_nil_r. auto.
    + cbn. auto.
    + destruct (length b <? n)%nat.
      * cbn. rewrite app_nil_r. auto.
      * cbn [app].
        destruct (IH (skipn n b) (out ++ match u with Some e => e | None => handle (firstn n b) end)) as [A [B C]].
        destruct (IH (skipn n b) (match u with Some e => e | None => handle (firstn n b) end)) as [A' [B' C']].
        rewrite A, B, C, A', B', C', app_assoc. auto.
Qed.

Lemma drain_S f b out : drain (S f) b out =
    match looks b with
    | TooShort => {| buf := b; outp := out; closed := false |}
    | NotTcp e => {| buf := []; outp := out ++ e; closed := true |}
    | Delimited n u =>
        if (length b <? n)%nat then {| buf := b; outp := out; closed := false |}
        else drain f (skipn n b) (out ++ match u with Some e => e | None => handle (firstn n b) end)
    end.
Proof. reflexivity. Qed.

Lemma drain_buf_le : forall f b o, (length (buf (drain f b o)) <= length b)%nat.
Proof.
  induction f as [|f IH]; intros b o; [cbn; lia|]. rewrite drain_S.
  destruct (looks b) as [|e|m u] eqn:E; [cbn; lia|cbn; lia|].
  destruct (length b <? m)%nat; [cbn; lia|].
  specialize (IH (skipn m b) (o ++ match u with Some e => e | None => handle (firstn m b) end)).
  rewrite skipn_length in IH. lia.
Qed.

(* the crux: draining s and then draining what is left together with new bytes c
   is the same as draining s ++ c in one go *)
Lemma drain_incremental : forall f s c out,
  (length (s ++ c) < f)%nat ->
  closed (drain f s out) = false ->
  drain f (s ++ c) out =
    drain f (buf (drain f s out) ++ c) (outp (drain f s out)).
Proof.
  induction f as [|f IH]; intros s c out Hf Hc; [lia|].
  destruct (Nat.lt_ge_cases (length s) 8) as [Hs|Hs].
  - (* nothing could be decided on s yet *)
    rewrite (drain_S f s). rewrite (looks_short s Hs). cbn [buf outp]. reflexivity.
  - rewrite (drain_S f s) in Hc |- *.
    destruct (looks s) as [|e|n u] eqn:E.
    + cbn [buf outp]. reflexivity.
    + cbn in Hc. discriminate.
    + destruct (length s <? n)%nat eqn:En.
      * cbn [buf outp]. reflexivity.
      * rewrite (drain_S f (s ++ c)). rewrite (looks_prefix s c Hs), E.
        replace (length (s ++ c) <? n)%nat with false by (rewrite app_length; lia).
        rewrite app_length in Hf. pose proof (looks_min _ _ _ E).
        rewrite firstn_app, skipn_app.
        replace (n - length s)%nat with 0%nat by lia. cbn [firstn skipn]. rewrite app_nil_r.
        set (o := out ++ _) in *.
        rewrite IH; [|rewrite app_length, skipn_length; lia|exact Hc].
        apply drain_fuel; rewrite app_length;
          pose proof (drain_buf_le f (skipn n s) o) as Hle; rewrite skipn_length in Hle; lia.
Qed.

(* consequence: feeding one more chunk to an open assembler that has seen the bytes `seen`
   gives the state of a single read of `seen ++ chunk` *)
Definition whole (bytes : list N) : st := drain (S (length bytes)) bytes [].

Lemma receive_whole seen chunk :
  closed (whole seen) = false ->
  receive (whole seen) chunk = whole (seen ++ chunk).
Proof.
  intros Hc. unfold receive. rewrite Hc. unfold whole in *.
  set (F := S (length (seen ++ chunk))).
  assert (HF : (length (seen ++ chunk) < F)%nat) by (unfold F; lia).
  assert (Hs : drain (S (length seen)) seen [] = drain F seen []).
  { apply drain_fuel; [lia|]. unfold F. rewrite app_length. lia. }
  rewrite Hs in *.
  rewrite (drain_incremental F seen chunk [] HF Hc).
  pose proof (drain_buf_le F seen []) as Hle.
  assert (HFv : F = S (length seen + length chunk)) by (unfold F; rewrite app_length; reflexivity).
  rewrite (drain_fuel (S (length (buf (drain F seen []) ++ chunk))) F) by (rewrite ?app_length; lia).
  destruct (drain_out F (buf (drain F seen []) ++ chunk) (outp (drain F seen []))) as [A [B C]].
  destruct (drain F (buf (drain F seen []) ++ chunk) (outp (drain F seen []))) as [b1 o1 c1] eqn:E1.
  cbn [buf outp closed] in *. subst. reflexivity.
Qed.

Theorem segmentation_independent : forall chunks seen,
  closed (fold_left receive chunks (whole seen)) = false ->
  fold_left receive chunks (whole seen) = whole (seen ++ concat chunks).
Proof.
  induction chunks as [|c chunks IH]; intros seen Hc; cbn [fold_left concat] in *.
  - rewrite app_nil_r. reflexivity.
  - destruct (closed (whole seen)) eqn:Ew.
    + (* once closed, always closed *)
      exfalso. clear IH. revert Hc. unfold receive at 2. rewrite Ew.
      induction chunks as [|c' chunks IH']; cbn [fold_left]; [congruence|].
      unfold receive at 2. rewrite Ew. exact IH'.
    + rewrite receive_whole in Hc |- * by exact Ew. rewrite IH by exact Hc. rewrite app_assoc. reflexivity.
Qed.
End Asm.
Print Assumptions segmentation_independent.
