From Coq Require Import List NArith ZArith Lia Bool ZifyBool ZifyN ZifyNat.
Import ListNotations.

(* ---- model of the read loop of client.go:do (network client) ---- *)
Inductive rd := RData (b : list N) | RTimeout | REof (b : list N) | RIoErr.
Record iter := { ctx_done : bool; timer_fired : bool; pick_ctx : bool; rd_ : rd }.

Inductive cerr := ECtx | ETimeout | EIo | ETooLong | EException (frame : list N) | ENoBytes.
Inductive out := Frame (f : list N) | Fail (e : cerr) | OutOfScript | BadScript.

Section Loop.
Variable maxlen : nat.                       (* 260 *)
Variable bufsz : nat.                        (* 270 *)
Variable is_exc : list N -> bool.            (* asProtocolErrorFunc(received[0:total]) != nil *)
Variable expected : nat.

Definition finish (acc : list N) : out :=
  match acc with [] => Fail ENoBytes | _ => Frame acc end.

Fixpoint loop (script : list iter) (acc : list N) : out :=
  match script with
  | [] => OutOfScript
  | it :: rest =>
      if ctx_done it && (pick_ctx it || negb (timer_fired it)) then Fail ECtx else
      if timer_fired it then Fail ETimeout else
      let after (b : list N) (eof : bool) :=
        if (bufsz - length acc <? length b)%nat then BadScript else   (* a Read returns at most len(buf) bytes *)
        let acc' := acc ++ b in
        if (maxlen <? length acc')%nat then Fail ETooLong else
        if is_exc acc' then Fail (EException acc') else
        if (expected <=? length acc')%nat then finish acc' else
        if eof then finish acc' else loop rest acc' in
      match rd_ it with
      | RIoErr => Fail EIo
      | RTimeout => after [] false
      | RData b => after b false
      | REof b => after b true
      end
  end.

(* a script that delivers the chunks, with any number of quiet timed-out reads before each chunk *)
Definition quiet : iter := {| ctx_done := false; timer_fired := false; pick_ctx := false; rd_ := RTimeout |}.
Definition deliver (b : list N) : iter := {| ctx_done := false; timer_fired := false; pick_ctx := false; rd_ := RData b |}.
Fixpoint script_of (chunks : list (nat * list N)) : list iter :=
  match chunks with
  | [] => []
  | (w, b) :: r => repeat quiet w ++ deliver b :: script_of r
  end.

Lemma loop_quiet w : forall rest acc,
  (length acc <= maxlen)%nat -> (maxlen <= bufsz)%nat ->
  is_exc acc = false -> (length acc < expected)%nat ->
  loop (repeat quiet w ++ rest) acc = loop rest acc.
Proof.
  induction w as [|w IH]; intros rest acc Hm Hb He Hx; [reflexivity|].
  cbn [repeat app loop quiet ctx_done timer_fired pick_ctx rd_ andb orb negb].
  rewrite app_nil_r. cbn [length].
  replace (bufsz - length acc <? 0)%nat with false by lia.
  replace (maxlen <? length acc)%nat with false by lia.
  rewrite He.
  replace (expected <=? length acc)%nat with false by lia.
  apply IH; assumption.
Qed.

(* The abstract-threshold theorem: if the stop threshold equals the reply length and no proper prefix of the
   reply looks like an exception frame, then every segmentation into non-empty chunks, with arbitrary waits,
   yields exactly the reply. *)
Theorem exact_threshold_complete : forall chunks acc reply tail,
  (maxlen <= bufsz)%nat ->
  reply = acc ++ concat (map snd chunks) ->
  length reply = expected -> (length reply <= maxlen)%nat -> (0 < length reply)%nat ->
  (forall p s, reply = p ++ s -> is_exc p = false) ->
  Forall (fun c => snd c <> []) chunks ->
  (length acc < expected)%nat ->
  loop (script_of chunks ++ tail) acc = Frame reply.
Proof.
  induction chunks as [|[w b] chunks IH]; intros acc reply tail Hbuf Hr Hlen Hmax Hpos Hexc Hne Hacc.
  - cbn in Hr. rewrite app_nil_r in Hr. subst. lia.
  - cbn [script_of]. rewrite <- app_assoc.
    cbn [map snd concat] in Hr.
    assert (Hl : length reply = (length acc + length b + length (concat (map snd chunks)))%nat).
    { rewrite Hr, !app_length. lia. }
    rewrite loop_quiet; [|lia|assumption| |assumption].
    2:{ apply (Hexc acc (b ++ concat (map snd chunks))). exact Hr. }
    cbn [app loop deliver ctx_done timer_fired pick_ctx rd_ andb orb negb].
    replace (bufsz - length acc <? length b)%nat with false by lia.
    rewrite app_length.
    replace (maxlen <? length acc + length b)%nat with false by lia.
    rewrite (Hexc (acc ++ b) (concat (map snd chunks))) by (rewrite <- app_assoc; exact Hr).
    pose proof (Forall_inv Hne) as Hb. pose proof (Forall_inv_tail Hne) as Hne'. cbn [snd] in Hb.
    destruct (expected <=? length acc + length b)%nat eqn:E.
    + (* reached the threshold: this must be the whole reply *)
      assert (Hz : length (concat (map snd chunks)) = 0%nat) by lia.
      apply length_zero_iff_nil in Hz. rewrite Hz, app_nil_r in Hr.
      unfold finish. rewrite <- Hr. destruct reply; [cbn in Hpos; lia|reflexivity].
    + apply IH; try assumption.
      * rewrite <- app_assoc. exact Hr.
      * rewrite app_length. lia.
Qed.
End Loop.
Print Assumptions exact_threshold_complete.
