From Coq Require Import List NArith Lia Bool.
Import ListNotations.
Open Scope N_scope.

Definition bit_step (c : N) : N :=
  if N.eqb (N.land c 1) 1 then N.lxor (N.shiftr c 1) 0xA001 else N.shiftr c 1.

Fixpoint iter {A} (n : nat) (f : A -> A) (x : A) : A :=
  match n with O => x | S k => iter k f (f x) end.

Definition byte_step (c b : N) : N := iter 8 bit_step (N.lxor c b).
Definition crc16 (l : list N) : N := fold_left byte_step l 0xFFFF.

Eval vm_compute in crc16 [0x01;0x04;0x02;0xFF;0xFF].
Eval vm_compute in crc16 [49;50;51;52;53;54;55;56;57].

(* spec on bit vectors: 16 bools, LSB first *)
Definition bv := list bool.
Fixpoint bv_of_N (w : nat) (n : N) : bv :=
  match w with O => [] | S k => N.odd n :: bv_of_N k (N.div2 n) end.
Fixpoint N_of_bv (v : bv) : N :=
  match v with [] => 0 | b :: r => (if b then 1 else 0) + 2 * N_of_bv r end.
Fixpoint xorv (a b : bv) : bv :=
  match a, b with x :: a', y :: b' => xorb x y :: xorv a' b' | _, _ => a end.
Definition poly : bv := bv_of_N 16 0xA001.
Definition spec_bit_step (r : bv) : bv :=
  match r with
  | [] => []
  | lsb :: rest => let sh := rest ++ [false] in if lsb then xorv sh poly else sh
  end.

Fixpoint seqN_from (n : nat) (start : N) : list N :=
  match n with O => [] | S k => start :: seqN_from k (N.succ start) end.
Definition seqN (n : N) : list N := seqN_from (N.to_nat n) 0.
Definition sweep : bool :=
  forallb (fun c => N.eqb (bit_step c) (N_of_bv (spec_bit_step (bv_of_N 16 c)))) (seqN 65536%N).
Time Lemma sweep_ok : sweep = true.
Proof. vm_compute. reflexivity. Time Qed.
